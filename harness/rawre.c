/*
 * M2 probe for regcomp() called directly (C11): the editor always wraps a
 * pattern into "(...)" (rset_make), so the end of the pattern string never
 * follows a backslash or an open "{" there; here every pattern is handed to
 * regcomp() as it is, in a heap copy of exactly its size so that a read past
 * its terminator is seen by the sanitizer.
 *
 * stdin: one pattern per line in hex.  stdout, flushed, per pattern:
 *   P hex        about to compile
 *   E            refused
 *   r so eo      compiled and matched against the probe line (-1 -1: no match)
 *   T            no answer within the time limit
 */
#include <setjmp.h>
#include <signal.h>
#include <stdio.h>
#include <stdlib.h>
#include <string.h>
#include <unistd.h>
#include "regex.h"

static sigjmp_buf jb;

static void onalarm(int sig)
{
	siglongjmp(jb, 1);
}

int main(void)
{
	char ln[512];
	char *text = "a1{1,2}\\ aa (a) [a] a|b\n";
	signal(SIGALRM, onalarm);
	while (fgets(ln, sizeof(ln), stdin)) {
		int n = 0, i;
		char *pat;
		regex_t re;
		regmatch_t m[4];
		while (ln[n] && ln[n] != '\n')
			n++;
		n /= 2;
		pat = malloc(n + 1);
		for (i = 0; i < n; i++) {
			unsigned v;
			sscanf(ln + 2 * i, "%2x", &v);
			pat[i] = v;
		}
		pat[n] = '\0';
		ln[2 * n] = '\0';
		printf("P %s\n", ln);
		fflush(stdout);
		if (sigsetjmp(jb, 1)) {
			printf("T\n");
			fflush(stdout);
			continue;		/* the pattern and a half-built program are leaked */
		}
		alarm(2);
		if (regcomp(&re, pat, REG_EXTENDED | REG_NEWLINE)) {
			alarm(0);
			printf("E\n");
		} else {
			int r = regexec(&re, text, 4, m, 0);
			alarm(0);
			if (r)
				printf("r -1 -1\n");
			else
				printf("r %d %d\n", (int) m[0].rm_so, (int) m[0].rm_eo);
			regfree(&re);
		}
		fflush(stdout);
		free(pat);
	}
	return 0;
}
