/*
 * M2 probe for direction, layout and shaping (dir.c, ren.c, uc_shape):
 *   request:  order td lim hexline [at]
 *   response: JSON with ctx, vis (dir_reorder), pos (ren_position), rpos/roff/rcur/rnxt/rprv/noeol, shape
 */
#include <stdio.h>
#include <stdlib.h>
#include <string.h>
#include "vi.h"

static void arr(char *name, int *v, int n)
{
	int i;
	printf(",\"%s\":[", name);
	for (i = 0; i < n; i++)
		printf("%s%d", i ? "," : "", v[i]);
	printf("]");
}

int main(void)
{
	static char hex[1 << 16];
	int order, td, lim, at;
	dir_init();
	syn_init();
	while (scanf("%d %d %d %65535s %d", &order, &td, &lim, hex, &at) == 5) {
		int nb = strlen(hex) / 2;
		char *s = malloc(nb + 1);
		int v[8192];
		int i, n, wid, *pos;
		for (i = 0; i < nb; i++) {
			unsigned x;
			sscanf(hex + 2 * i, "%2x", &x);
			s[i] = x;
		}
		s[nb] = '\0';
		xorder = order;
		xtd = td;
		xlim = lim;
		n = uc_slen(s);
		printf("{\"ctx\":%d", dir_context(s));
		for (i = 0; i < n; i++)
			v[i] = i;
		dir_reorder(s, v);
		arr("vis", v, n);
		pos = ren_position(s);
		arr("pos", pos, n + 1);
		wid = pos[n];
		free(pos);
		printf(",\"wid\":%d", ren_wid(s));
		for (i = 0; i <= n + 1; i++)
			v[i] = ren_pos(s, i);
		arr("rpos", v, n + 2);
		for (i = 0; i <= wid + 1; i++)
			v[i] = ren_off(s, i);
		arr("roff", v, wid + 2);
		for (i = 0; i <= wid + 1; i++)
			v[i] = ren_cursor(s, i);
		arr("rcur", v, wid + 2);
		for (i = 0; i <= wid + 1; i++)
			v[i] = ren_next(s, i, +1);
		arr("rnxt", v, wid + 2);
		for (i = 0; i <= wid + 1; i++)
			v[i] = ren_next(s, i, -1);
		arr("rprv", v, wid + 2);
		for (i = 0; i <= n + 1; i++)
			v[i] = ren_noeol(s, i);
		arr("noeol", v, n + 2);
		if (at >= 0) {
			char *c = uc_chr(s, at);
			char *sh = uc_shape(s, c);
			printf(",\"shape\":%d", sh ? uc_code(sh) : uc_code(c));
		}
		printf("}\n");
		fflush(stdout);
		free(s);
	}
	return 0;
}
