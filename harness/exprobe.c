/*
 * M2 probe for the ex command-line splitter (ex.c: ex_exec and its helpers):
 *   request:  hex of one command line ('-' for the empty line)
 *   response: "ok" once ex_command() returned
 * Before each request a marker record {"ev":"req","k":K} goes to the hook trace; the "ec" records the
 * hooks write while the line executes are what the harness compares with spec/ExParse.tla.
 * The editor's own input is /dev/null (text blocks are empty) and its output is discarded.
 */
#include <stdio.h>
#include <stdlib.h>
#include <string.h>
#include <unistd.h>
#include <fcntl.h>
#include "vi.h"
#include "verif.h"

int main(void)
{
	static char hex[1 << 16];
	char *files[] = {NULL};
	int in = dup(0), out = dup(1), k = 0;
	FILE *req = fdopen(in, "r");
	freopen("/dev/null", "r", stdin);
	freopen("/dev/null", "w", stdout);
	xvis = 0;
	xled = 0;
	dir_init();
	syn_init();
	tag_init();
	if (ex_init(files))
		return 3;
	while (fscanf(req, "%65535s", hex) == 1) {
		int nb = hex[0] == '-' ? 0 : strlen(hex) / 2;
		char *s = malloc(nb + 1);
		struct sbuf *sb;
		int i;
		for (i = 0; i < nb; i++) {
			unsigned x;
			sscanf(hex + 2 * i, "%2x", &x);
			s[i] = x;
		}
		s[nb] = '\0';
		{				/* a small, known buffer for every line */
			lbuf_edit(xb, "s g k\n1 2\nx é s\n", 0, lbuf_len(xb));
			xrow = 0;
		}
		sb = verif_rec("req");
		verif_int(sb, "k", k++);
		verif_emit(sb);
		ex_command(s);
		xquit = 0;
		free(s);
		dprintf(out, "ok\n");
	}
	return 0;
}
