/*
 * M4: LD_PRELOAD shim that logs, and on request fails, the system calls neatvi
 * makes on files below $NEATVI_SHIM_DIR when writing: open (for writing),
 * write, ftruncate, close.  One NDJSON record per call is appended to
 * $NEATVI_VERIF_TRACE.  The fault plan is read from $NEATVI_SHIM_PLAN each
 * time a file is opened for writing: "<k> <kind> [<n>]" fails the k-th call of
 * that open..close sequence (1 = the open itself); kind: EIO ENOSPC EINTR
 * EACCES, or SHORT (write only n bytes, default half).
 */
#define _GNU_SOURCE
#include <dlfcn.h>
#include <errno.h>
#include <fcntl.h>
#include <stdarg.h>
#include <stdio.h>
#include <stdlib.h>
#include <string.h>
#include <unistd.h>

static int tracked = -1;	/* the descriptor being followed */
static int seqno;		/* calls since (and including) its open */
static int plan_k, plan_n;
static char plan_kind[16];
static int logfd = -2;

static void logrec(const char *call, int fd, long n, long ret, int err)
{
	char buf[256];
	int len;
	if (logfd == -2) {
		char *p = getenv("NEATVI_VERIF_TRACE");
		int (*ropen)(const char *, int, ...) = dlsym(RTLD_NEXT, "open");
		logfd = p ? ropen(p, O_WRONLY | O_APPEND | O_CREAT, 0600) : -1;
	}
	if (logfd < 0)
		return;
	len = snprintf(buf, sizeof(buf), "{\"ev\":\"sys\",\"call\":\"%s\",\"k\":%d,\"fd\":%d,\"n\":%ld,\"ret\":%ld,\"errno\":%d}\n",
			call, seqno, fd, n, ret, err);
	{
		ssize_t (*rwrite)(int, const void *, size_t) = dlsym(RTLD_NEXT, "write");
		rwrite(logfd, buf, len);
	}
}

static void readplan(void)
{
	char *p = getenv("NEATVI_SHIM_PLAN");
	FILE *f;
	plan_k = 0;
	plan_n = -1;
	plan_kind[0] = '\0';
	if (!p || !(f = fopen(p, "r")))
		return;
	if (fscanf(f, "%d %15s %d", &plan_k, plan_kind, &plan_n) < 2)
		plan_k = 0;
	fclose(f);
}

static int planerr(void)
{
	if (!strcmp(plan_kind, "EIO"))
		return EIO;
	if (!strcmp(plan_kind, "ENOSPC"))
		return ENOSPC;
	if (!strcmp(plan_kind, "EINTR"))
		return EINTR;
	if (!strcmp(plan_kind, "EACCES"))
		return EACCES;
	return 0;
}

static int inside(const char *path)
{
	char *d = getenv("NEATVI_SHIM_DIR");
	char cwd[1024];
	char *tr = getenv("NEATVI_VERIF_TRACE");
	if (!d || !path)
		return 0;
	if (tr && !strcmp(tr, path))	/* the trace file itself */
		return 0;
	if (path[0] == '/')
		return !strncmp(path, d, strlen(d));
	return getcwd(cwd, sizeof(cwd)) && !strncmp(cwd, d, strlen(d));
}

static int do_open(const char *name, const char *path, int flags, mode_t mode)
{
	int (*ropen)(const char *, int, ...) = dlsym(RTLD_NEXT, name);
	int fd;
	if (!(flags & (O_WRONLY | O_RDWR)) || !inside(path))
		return ropen(path, flags, mode);
	readplan();
	seqno = 1;
	if (plan_k == 1 && planerr()) {
		logrec("open", -1, 0, -1, planerr());
		seqno = 0;
		errno = planerr();
		return -1;
	}
	fd = ropen(path, flags, mode);
	logrec("open", fd, 0, fd, fd < 0 ? errno : 0);
	tracked = fd;
	return fd;
}

int open(const char *path, int flags, ...)
{
	mode_t mode = 0;
	va_list ap;
	va_start(ap, flags);
	if (flags & O_CREAT)
		mode = va_arg(ap, int);
	va_end(ap);
	return do_open("open", path, flags, mode);
}

int open64(const char *path, int flags, ...)
{
	mode_t mode = 0;
	va_list ap;
	va_start(ap, flags);
	if (flags & O_CREAT)
		mode = va_arg(ap, int);
	va_end(ap);
	return do_open("open64", path, flags, mode);
}

ssize_t write(int fd, const void *buf, size_t n)
{
	ssize_t (*rwrite)(int, const void *, size_t) = dlsym(RTLD_NEXT, "write");
	ssize_t r;
	if (fd < 0 || fd != tracked)
		return rwrite(fd, buf, n);
	seqno++;
	if (plan_k == seqno && planerr()) {
		logrec("write", fd, n, -1, planerr());
		errno = planerr();
		return -1;
	}
	/* SHORTERR: this write is cut short and the retry of the rest fails (disk full after partial progress) */
	if (plan_k + 1 == seqno && !strcmp(plan_kind, "SHORTERR")) {
		logrec("write", fd, n, -1, ENOSPC);
		errno = ENOSPC;
		return -1;
	}
	if (plan_k == seqno && (!strcmp(plan_kind, "SHORT") || !strcmp(plan_kind, "SHORTERR")) && n > 1) {
		size_t m = plan_n > 0 && (size_t) plan_n < n ? (size_t) plan_n : n / 2;
		r = rwrite(fd, buf, m);
		logrec("write", fd, n, r, 0);
		return r;
	}
	r = rwrite(fd, buf, n);
	logrec("write", fd, n, r, r < 0 ? errno : 0);
	return r;
}

int ftruncate(int fd, off_t len)
{
	int (*rtrunc)(int, off_t) = dlsym(RTLD_NEXT, "ftruncate");
	int r;
	if (fd < 0 || fd != tracked)
		return rtrunc(fd, len);
	seqno++;
	if (plan_k == seqno && planerr()) {	/* the file keeps its old length: a longer old tail stays behind the new text */
		logrec("ftruncate", fd, len, -1, planerr());
		errno = planerr();
		return -1;
	}
	r = rtrunc(fd, len);
	logrec("ftruncate", fd, len, r, r < 0 ? errno : 0);
	return r;
}

int close(int fd)
{
	int (*rclose)(int) = dlsym(RTLD_NEXT, "close");
	int r;
	if (fd < 0 || fd != tracked)
		return rclose(fd);
	seqno++;
	tracked = -1;
	if (plan_k == seqno && planerr()) {
		rclose(fd);
		logrec("close", fd, 0, -1, planerr());
		errno = planerr();
		return -1;
	}
	r = rclose(fd);
	logrec("close", fd, 0, r, r < 0 ? errno : 0);
	return r;
}
