#!/usr/bin/env python3
"""C05 - no memory error, crash or hang for any command stream over UTF-8 text.

Streams: (A) the behaviours TLC generates from Ex.tla and Vi.tla (every Gen_Ex / Gen_Vi profile), (B) the 60 scripts of the
repository's test suite, (C) mutations of A and B (truncation, deletion, duplication, transposition of slices, spliced tokens:
out-of-range and negative addresses, huge counts, unknown commands, long runs up to and beyond the 512-byte command limit,
wide / combining / right-to-left text), (D) nonsense streams drawn from the token vocabulary.  Configurations: windows from 2x2
to 50x132, initial files from a pool of UTF-8 texts (empty, unterminated, wide, combining, bidi, long lines), option settings
through EXINIT.  Each stream runs on the ASan+UBSan traced binary and must reach the quit command that ends it within the time
bound: complete trace ending in the `exit' record, exit status 0, no sanitizer report.  The states recorded along the way are
validated by TLC against spec/TraceInv.tla (valid UTF-8 lines, well-formed buffer table, undo cursor inside the log, cursor on
an existing character and inside the window at every vi command boundary).  spec/ExParse.tla is the ex command-line splitter at
index level with the safety property "no read beyond the terminator, outputs fit, progress"; TLC evaluates it on every short
line and on long lines around the 512-byte limit, and a probe puts the same lines through the real ex_exec (exact heap
allocation under ASan) comparing the split."""
import os, sys, random, re, glob, subprocess
sys.path.insert(0, os.path.dirname(os.path.dirname(os.path.abspath(__file__))))
from common import *
import vidrive
from editor import run_vi, lines_of, txt, gen_scripts
from concurrent.futures import ThreadPoolExecutor

SIZES = [(2, 2), (2, 80), (3, 5), (5, 14), (24, 80), (24, 3), (50, 132), (8, 24), (24, 80), (4, 40), (10, 700), (60, 300)]
UNI = ["é", "漢字", "á", "שלום", "مرحبا", "‍", "‌", "😀", "ｆｕｌｌ", "الله", "\t", "ß", "אָ", "x̀́̂",
       "\U0001f468‍\U0001f469", "　", " ", " ", "﻿", "\U0010ffff", "ـ"]
FILES = ["", "one\n", "no newline at end", "a\nb\nc\nd\ne\nf\ng\nh\ni\nj\nk\nl\nm\nn\no\np\nq\nr\ns\nt\nu\nv\nw\nx\ny\nz\n",
         "漢字 wide 全角\nشسيب abc שלום\náé combining\n\ttabs\t\there\n\n\nlast\n",
         "x" * 700 + "\n" + "漢" * 300 + "\nshort\n", "\n\n\n", "(a [b {c\n d} e] f)\n{\n\tint x = 1;\n}\n",
         "مرحبا بالعالم\nשלום עולם abc 123\nabc مرحبا def\n", " \n\t\n  x  \n", "\n".join("line %d foo bar baz" % i for i in range(120)) + "\n"]
EXINITS = ["", "se noai", "se ic", "se td=-1", "se td=-2", "se td=2", "se td=1", "se noshape", "se noorder", "se nohl", "se hll", "se lim=5", "se lim=0",
           "se lim=-3", "se hist=3", "se noru", "se wa", "se aw", "se td=1|se hll|se ic|se lim=20", "se ai|se noshape|se td=-1"]
EXTOK = ["p", "d", "1,$d", "$", "0", "-5", "+99999", "99999", "2147483647", "4294967297", "-", "+", "$+3p", "0,0d", "3,1p", "'zp", "'a,'bd", "ka", "/nomatch/", "?x?", "//", "??",
         "s", "s/a", "s/a/b", "s//x/g", "s/$/!/", "s/^//g", "s/\\(a\\)\\(b\\)/\\2\\1/", "s/a*/X/g", "s/./&&/g", "&", "g/a/d", "g/./s/a/b/|p", "v/x/d", "g//", "g/a/g/b/p", "g",
         "a", "i", "c", "a\nx\n.", "i\n.", "c\n.", ".", "u", "u|u", "rd", "j", "1,$j", "co 0", "t $", "m 0", "m $", "1,2m1", "1,3co2", "y", "y a", "pu", "pu a", "pu z", "0pu", "=", "f", "f x y",
         "e", "e!", "e other", "e! other", "b", "b 1", "b 0", "b 99", "b x", "w", "w out", "w! out", "wq", "r", "r nofile", "r out", "0r out", "w !x", "r !x", "!x", "1,2!x", "se", "se x", "se td=9",
         "se ts", "se nonum", "se ai?", "ya", "ra", "ra a", "@a", "@", "*", "k", "k1", "mar", "ta", "ta x", "po", "cm", "cm x", "ft", "ft c", "ft x", "ac", "reg", "bx", "bp", "bs", "uc", "uz",
         "x!", "q", "|", "||", "1|2|3", "p|", "|p", " ", "\t", ":", "::p", "1;2p", "/a/;/b/p", "%", "%p", "%d", ",", ",p", ";", "$;$p", "1,", ",2", "3;", "g/a/", "s///", "s/a//", "s/[/x/", "s/\\(/x/",
         "s/a\\{2,1\\}/x/", "s/\\</</g", "s/\\>/>/g", "/[[:alpha:]]/", "/[^]a]/", "/a\\|b/", "/\\(a\\|b\\)*c/", "/.\\{0,3\\}$/"]
VITOK = ["h", "j", "k", "l", "w", "b", "e", "W", "B", "E", "0", "$", "^", "_", "|", "5|", "G", "1G", "99999G", "H", "M", "L", "{", "}", "(", ")", "[[", "]]", "%", "fa", "Fx", "t.", "T ", ";", ",",
         "n", "N", "/a\n", "?b\n", "/\n", "?\n", "*", "#", "`a", "'a", "``", "''", "ma", "mz", "x", "X", "dd", "dw", "d$", "d0", "dG", "d}", "d%", "D", "cc", "cw", "C", "s", "S", "yy", "yw", "Y", "p", "P", "\"ap",
         "\"ayy", "\"Ayy", "\"zp", "\"", "\"\"", "J", "5J", ".", "u", "\x12", "U", "~", "g~~", "gUw", "guw", "gu", "g", "r", "rx", "r\n", "R", "Rab\x1b", "i", "a", "A", "I", "o", "O", "ix\x1b", "atext\x1b", "o\x1b",
         "i\x16\x01\x1b", "i\x08\x08\x1b", "i\x17\x1b", "i\x15\x1b", "i\x14\x1b", "i\x04\x1b", "i\x0b\x1b", "i\x0f\x1b", "i\x12a\x1b", "i\x10\x1b", ">>", "<<", ">}", "<G", "!!", "!}x\n", "=", "z\n", "z.", "z-", "zt",
         "\x05", "\x19", "\x04", "\x15", "\x06", "\x02", "\x0c", "\x07", "\x1e", "\x1d", "\x14", "\x17s", "\x17j", "\x17k", "\x17o", "\x17x", "\x17c", "\x17", "@a", "@@", "@", "qa", "q", "ZZ", "Z", "v", "V", "&", ":",
         ":p\n", ":1,$d\n", ":u\n", ":s/a/b/g\n", ":g/a/d\n", ":e other\n", ":e!\n", ":b\n", ":w out\n", ":se td=-1\n", ":se td=1\n", ":se hll\n", ":se lim=3\n", "\x1b", "\x1b\x1b", "\x03", "\n", "\r", " ", "\x7f", "\x08",
         "1", "22", "333", "99999", "2147483647", "4294967296", "0", "3d2w", "2\"a3yy", "d", "c", "y", "<", ">", "g", "z", "[", "]", "f", "m", "`", "'", "zz", "ge", "gg", "gw", "gq", "K", "\\", "Q", "gf", "gl", "\x1bOA", "\x1b[A",
         "\x10", "\x0e", "\x18", "\x01", "\x0b"]
NULLABLE_LOOP = re.compile(r"[*+?}$^<>]\\?\)\\?[*+{]|\(\\?\)\\?[*+{]|\(\\?\||\|\\?\)|\|\\?\|")


def mutate(rng, cps, vi):
    """a mutated copy of a stream of code points"""
    s = list(cps)
    tok = VITOK if vi else EXTOK
    sep = "" if vi else "\n"
    for _ in range(rng.choice([1, 1, 2, 3, 5])):
        op = rng.randrange(11)
        n = len(s)
        i, j = sorted((rng.randrange(n + 1), rng.randrange(n + 1)))
        if op == 0:
            s = s[:i]
        elif op == 1:
            del s[i:min(j, i + 40)]
        elif op == 2:
            s[i:i] = s[i:min(j, i + 60)] * rng.choice([1, 2, 7])
        elif op == 3 and j > i:
            k = rng.randrange(i, j)
            s[i:j] = s[k:j] + s[i:k]
        elif op in (4, 5, 6):
            t = rng.choice(tok)
            s[i:i] = [ord(c) for c in (sep + t + sep if rng.random() < 0.7 else t)]
        elif op == 7:
            m = re.search(r"\d+", txt(s[i:]))
            if m:
                big = rng.choice(["0", "99999", "2147483647", "2147483648", "4294967295", "4294967296", "99999999999999999999", "-1"])
                s[i + m.start():i + m.end()] = [ord(c) for c in big]
        elif op == 8:
            ln = rng.choice([200, 509, 510, 511, 512, 513, 520, 1030, 4090, 4200, 9000])
            unit = rng.choice(["a", "|p", "漢", "a\\|", "/x/;", "1,", "+", "ab ", "\\(a\\)", "é"])
            run = (unit * (ln // len(unit.encode()) + 1))
            run = run.encode()[:ln].decode("utf-8", "ignore")
            s[i:i] = [ord(c) for c in run]
        elif op == 9:
            s[i:i] = [ord(c) for c in rng.choice(UNI) * rng.choice([1, 1, 3, 40])]
        else:
            s[i:i] = [ord(c) for c in sep.join(rng.choice(tok) for _ in range(rng.randrange(1, 9)))]
    return s


def sanitize(cps, vi):
    if vi:
        cps = [c for c in cps if c != 0x1a]       # ^Z stops the whole process group: not a command stream matter
    return [c for c in cps if c != 0 and not 0xd800 <= c < 0xe000 and c < 0x110000]


def nonsense(rng, vi):
    tok = VITOK if vi else EXTOK
    sep = "" if vi else "\n"
    return [ord(c) for c in sep.join(rng.choice(tok) if rng.random() < 0.9 else rng.choice(UNI) for _ in range(rng.randrange(5, 120)))]


def repo_tests(ctx):
    out = []
    for f in sorted(glob.glob(os.path.join(REPO, "test", "[ev]??.sh"))):
        p = subprocess.run(["sh", f, "out.txt"], capture_output=True, cwd=ctx.scratch)
        try:
            s = p.stdout.decode("utf-8")
        except UnicodeDecodeError:
            continue
        out.append((os.path.basename(f), os.path.basename(f)[0] == "v", [ord(c) for c in s]))
    return out


def run_stream(ctx, st, safebin):
    vi = st["vi"]
    body = "".join(map(chr, st["cps"])).encode("utf-8")
    # the quit command that ends the stream: ESC out of any mode, ^E back to the plain keymap inside the prompt; in ex mode a
    # pending text block (or one per line under :g) may swallow lines, so the block terminator and q! repeat
    tail = b"\x1b\x1b:\x05q!\n" * 3 if vi else b"\n" + b".\nq!\n" * 400
    work = tempfile.mkdtemp(prefix="c05-", dir=ctx.scratch)
    args = ["-v"] if vi else ["-s", "-e"]
    if st["file"] is not None:
        with open(os.path.join(work, "text"), "w", encoding="utf-8") as f:
            f.write(st["file"])
        args.append("text")
    with open(os.path.join(work, "other"), "w", encoding="utf-8") as f:
        f.write("other file\nשלום\n")
    R, C = st["size"]
    recs, rc, err, to, _ = run_vi(ctx, args, body + tail, timeout=st.get("timeout", 20 + len(body) // 60), cwd=work, fsize=600 << 20,
                                  env_extra={"LINES": str(R), "COLUMNS": str(C), "EXINIT": st["exinit"], "LD_PRELOAD": safebin})
    shutil.rmtree(work, True)
    complete = bool(recs) and recs[-1].get("ev") == "exit" and rc == 0 and not to
    states = []
    for r in recs:
        if r.get("ev") in ("vi", "ex") and "bufs" in r and r["bufs"] and r["bufs"][0]:
            lb = r["bufs"][0]["lb"]
            big = 0 if "lines" in lb and sum(len(x) for x in lb["lines"]) < 6000 else 1
            states.append({"ev": "st", "kind": r["ev"], "done": r.get("done", 0) if not r.get("quit") else 0, "big": big,
                           "lines": lines_of(lb) if not big else [], "n": lb["n"], "row": r["row"], "off": r["off"], "top": r["top"],
                           "rows": r.get("rows", 0), "hu": lb["hu"], "hn": lb["hn"], "ids": [b["bid"] + 1 if b else 0 for b in r["bufs"]]})
    if vi and re.search(r"\d{8,}", body.decode()):
        # a count of 10^8 or more overflows the window arithmetic (signed wrap-around): cursor / window positions are not required
        for x in states:
            x["done"] = 0
    maxn = max([r.get("n", 0) for r in recs if r.get("ev") == "ec"] + [r.get("row", 0) for r in recs if r.get("ev") == "gv"] + [x["n"] for x in states] + [0])
    maxbytes = max([r["bufs"][0]["lb"].get("bytes", 0) for r in recs if r.get("ev") in ("vi", "ex") and r.get("bufs") and r["bufs"][0]] + [0])
    res = {"complete": complete, "rc": rc, "timed_out": to, "nrec": len(recs), "states": states, "stderr": err[-4000:], "maxn": maxn, "maxbytes": maxbytes}
    if not complete:
        m = re.search(r"SUMMARY: (\S+): (\S+)(?: \S+ in (\S+))?", err) or re.search(r"(runtime error): ([^\n]{0,80})", err)
        res["sig"] = "timeout" if to else (" ".join(x for x in m.groups() if x) if m else "rc=%s" % rc)
        m = re.search(r"#\d+ 0x[0-9a-f]+ in (\w+) [^\n]*/(\w+\.c):(\d+)", err)
        res["where"] = "%s %s" % (m.group(2), m.group(1)) if m else ""
    return res


def inconclusive(vi, body, r):
    """a stream that ran out of time while demonstrably progressing is slow, not stuck"""
    if r["timed_out"] and (r["maxn"] >= 20000 or r["maxbytes"] >= 100000):
        # the stream doubled the buffer again and again (g/./pu, yGP ...): exponential work, still progressing; or a counted
        # put made a line of 10^5 bytes or more and every later command renders it (the stream of the thorough tier that did
        # this ended normally after 63 s on the plain build)
        return "inconclusive_growth"
    if r["timed_out"] and vi and re.search(r"\d{8,}", body):
        # a count of 10^8 or more before } { J . and the like is that many cheap iterations: slow, not stuck
        return "inconclusive_huge_count"
    return None


def splitter(ctx, st):
    """ExParse.tla against ex_exec: every line of <= L symbols of the alphabet, and long lines around the 512-byte limit, go
    through the real splitter in a probe whose command string is an exact heap allocation (any read beyond the terminator is
    an ASan report); the (loc, cmd, arg, txt) of every command are compared with what the specification computes, and the
    specification's own verdict Safe(line) is required"""
    import checks_util
    from regexlib import gen_tables, split_range
    from probe import run_probe
    NA, L = 19, (4 if ctx.quick else 5)
    total = sum(NA ** k for k in range(L + 1))
    jobs = [dict(MODE="enum", LO=a, HI=b) for a, b in split_range(0, total, NCPU * (1 if ctx.quick else 4))]
    shapes = []
    for pre in ["", "s/", "s/a/", "g/", "g/a/s/", "1,", "'", "/", "/a/;", "!", "w !", "k", "é", "rs a\n", "se ", "  ", "a|", "\\"]:
        for fill in ["a", "/", "\\", "|", "é", "1", "'a", "\\/"]:
            for n in ((510, 511, 512, 513) if ctx.quick else (505, 509, 510, 511, 512, 513, 514, 520, 600)):
                body = pre + fill * ((n - len(pre.encode())) // len(fill.encode()) + 1)
                body = body.encode()[:n].decode("utf-8", "ignore")
                shapes.append(list(body.encode()))
    for k in range(NCPU):
        lf = ctx.path("gen", "exparse_shapes%d.ndjson" % k)
        with open(lf, "w") as f:
            for x in shapes[k::NCPU]:
                f.write(json.dumps(x) + "\n")
        jobs.append(dict(MODE="list", IDXFILE=lf))
    t0 = time.time()
    tabs = gen_tables(ctx, jobs, module="Gen_ExParse", timeout=3000)
    t1 = time.time()
    exe = ctx.probe("exprobe")
    shim = checks_util.build_execshim(ctx)

    def shard(jp):
        k, (job, path) = jp
        cases = [json.loads(ln) for ln in open(path)]
        work = ctx.path("exprobe%d" % k, "x")[:-2]
        tr = os.path.join(work, "trace.ndjson")
        reqs = [bytes(c["s"]).hex() or "-" for c in cases]
        out, crash = run_probe(exe, reqs, cwd=work, timeout=2400, env_extra={"NEATVI_VERIF_TRACE": tr, "NEATVI_VERIF_LIGHT": "1", "LD_PRELOAD": shim,
                                                                              "HOME": work})
        got, cur = [], None
        if os.path.exists(tr):
            for ln in open(tr, "rb"):
                try:
                    r = json.loads(ln)
                except ValueError:
                    continue
                if r.get("ev") == "req":
                    cur = []
                    got.append(cur)
                elif r.get("ev") == "ec" and r.get("dep") == 0 and cur is not None:
                    cur.append(r)
        res = dict(cases=len(cases), cmds=0, unsafe=[], crashes=[], drift=[], hangs=[])
        hx = lambda bs: bytes(bs).hex()
        for i, c in enumerate(cases):
            line = bytes(c["s"]).decode("utf-8", "replace")
            if crash[i] and not crash[i].get("skipped"):
                (res["hangs"] if crash[i]["rc"] == 124 else res["crashes"]).append((line, crash[i]))
                continue
            if not c["safe"]:
                res["unsafe"].append((line, c))
            if out[i] != "ok" or i >= len(got):
                continue
            # ec_glob rewrites an empty address to "%" in place before the hook records it
            exp = [(hx(x["loc"]) or ("25" if x["known"] and x["cmd"][:1] in ([103], [118]) else ""), hx(x["cmd"]), hx(x["arg"]),
                    (hx(x["txt"][0]) if x["txt"] else None), x["known"]) for x in c["cmds"]]
            rec = [(r["loc"], r["cmd"], r["arg"], r["txt"], r["idx"] >= 0) for r in got[i]]
            res["cmds"] += len(rec)
            if exp != rec:
                res["drift"].append((line, exp, rec))
        shutil.rmtree(work, True)
        return res
    with ThreadPoolExecutor(NCPU) as ex:
        results = list(ex.map(shard, enumerate(tabs)))
    sp = dict(t_gen=round(t1 - t0), t_probe=round(time.time() - t1), lines=0, commands=0, drift=0, long_shapes=len(shapes), alphabet=NA, max_len=L)
    for r in results:
        sp["lines"] += r["cases"]
        sp["commands"] += r["cmds"]
        for line, c in r["unsafe"]:
            ctx.violation("ex command line %r: the splitter reads beyond the terminator, overruns a part buffer or stops making progress "
                          "(ExParse.tla: bad=%s stuck=%s)" % (line, c["bad"], c["stuck"]),
                          {"mode": "vi -s -e", "window": [24, 80], "exinit": "", "file": None, "stream": line, "stream_hex": line.encode().hex(), "model": c},
                          {"kind": "splitter", "what": "unsafe"})
        for line, cr in r["crashes"] + r["hangs"]:
            m = re.search(r"SUMMARY: (\S+): (\S+)(?: \S+ in (\S+))?", cr["stderr"])
            ctx.violation("ex command line %r (%d bytes) %s in the splitter probe: %s" %
                          (line[:60], len(line.encode()), "does not return" if cr["rc"] == 124 else "crashes", " ".join(x for x in m.groups() if x) if m else "rc=%s" % cr["rc"]),
                          {"mode": "vi -s -e", "window": [24, 80], "exinit": "", "file": None, "stream": line, "stream_hex": line.encode().hex(), "stderr": cr["stderr"]},
                          {"kind": "crash", "what": "splitter", "where": (m.group(3) or "") if m else ""})
        sp["drift"] += len(r["drift"])
        for line, exp, rec in r["drift"][:2]:
            if len(ctx.notes) < 6:
                ctx.notes.append("splitter: line %r parsed as %s, ExParse.tla says %s (not a violation by itself: the model no longer describes the code)" % (line, rec, exp))
    st["splitter"] = sp


def replay(ctx, r):
    """re-run the stream of one replay file on a fresh build of the working tree"""
    import checks_util
    st = {"vi": r["mode"] == "vi -v", "cps": [ord(c) for c in bytes.fromhex(r["stream_hex"]).decode()], "size": tuple(r["window"]),
          "file": r.get("file"), "exinit": r.get("exinit", ""), "origin": "replay"}
    res = run_stream(ctx, st, checks_util.build_execshim(ctx))
    print(json.dumps({k: res[k] for k in ("complete", "rc", "timed_out", "nrec")}), res.get("sig", ""), res.get("where", ""))
    if not res["complete"] and inconclusive(st["vi"], bytes.fromhex(r["stream_hex"]).decode(), res):
        print("inconclusive: the stream ran out of time while the buffer kept growing (%d lines, %d bytes) or under a count of 10^8 or more" % (res["maxn"], res["maxbytes"]))
        return 0
    if not res["complete"]:
        print(res["stderr"][-3000:])
        print("VIOLATION property=C05 replay=%s" % os.path.abspath(sys.argv[sys.argv.index("--replay") + 1]))
        return 1
    return 0


def main(ctx, args):
    if args.replay_obj:
        return replay(ctx, args.replay_obj)
    rng = random.Random(ctx.seed)
    if os.environ.get("VERIF_C05_ONLY") == "splitter":
        st = {}
        ctx.build()
        splitter(ctx, st)
        print(json.dumps(st), ctx.notes, len(ctx.violations), "violations")
        return 0
    nA, steps, nmut, nnon, maxval = (6, 25, 3, 150, 900) if ctx.quick else (60, 40, 12, 6000, 12000)
    ctx.build()
    exs = []
    for prof in ("lines", "sub", "glob"):
        exs += [("Gen_Ex/" + prof, False, [c for s in sc["steps"] for c in s["typed"]]) for sc in gen_scripts(ctx, "Gen_Ex", prof, nA, steps)]
    vis = []
    for prof in ("mot", "edit", "search", "repeat"):
        vis += [("Gen_Vi/" + prof, True, [c for s in sc["steps"] for c in s["keys"]]) for sc in vidrive.gen(ctx, prof, nA, steps)]
    base = exs + vis + repo_tests(ctx)
    import checks_util
    safebin = checks_util.build_execshim(ctx)       # every shell-out becomes a harmless filter
    streams = []

    def add(origin, vi, cps, plain=False):
        k = len(streams)
        streams.append({"origin": origin, "vi": vi, "cps": sanitize(cps, vi), "size": (24, 80) if plain else rng.choice(SIZES),
                        "file": None if plain or rng.random() < 0.3 else rng.choice(FILES), "exinit": "" if plain else rng.choice(EXINITS), "k": k})
    for o, vi, cps in base:
        add(o, vi, cps, plain=True)
        add(o + "+config", vi, cps)
        for m in range(nmut):
            add(o + "+mut", vi, mutate(rng, cps, vi))
    for k in range(nnon):
        vi = k % 2 == 0
        add("nonsense", vi, nonsense(rng, vi))
    # streams whose patterns contain a loop over something that matches the empty string hang the matcher (known finding of C11):
    # they are kept apart and must be recognised as such
    risky = [s for s in streams if NULLABLE_LOOP.search(txt(s["cps"]))]
    streams = [s for s in streams if not NULLABLE_LOOP.search(txt(s["cps"]))]
    corpus = [{"origin": "corpus/nullable-loop", "vi": False, "cps": [ord(c) for c in "a\n" + "a" * 40 + "c\n.\ns/(a*)*b/x/\n"], "size": (24, 80), "file": None,
               "exinit": "", "k": -1, "timeout": 8, "nullable": 1}]
    # the inputs of the repaired defects (known_findings.jsonl, status fixed) run on every execution
    def fixed(name, vi, text, size=(24, 80), file=None):
        corpus.append({"origin": "corpus/" + name, "vi": vi, "cps": [ord(c) for c in text], "size": size, "file": file, "exinit": "", "k": -1})
    fixed("bare-substitute", False, "a\nabc\n.\ns")
    fixed("bare-substitute-vi", True, "iabc\x1b:s\n:&\n:~\n")
    fixed("addressless-after-undo", False, "a\nx\ny\n.\nu\ns/a*//g\n&\np\nd\n")
    fixed("at-frees-register", False, "c\nx\ne other\n1,$d\n.\n1,$d\n@\n")
    fixed("cut-message", True, "w:p\n", (10, 700), "x" * 700 + "\n" + "漢" * 300 + "\nshort\n")
    fixed("cut-message-narrow", True, "w:p\n", (2, 2), "x" * 700 + "\n" + "漢" * 300 + "\nshort\n")
    fixed("stale-mark-column", True, "S22\r\x1b}gldw`yydd`'")
    fixed("ctrl-r-multibyte", True, "A\x12ש\x1b")
    fixed("ctrl-k-multibyte", True, "i\x0b😀\x1b")
    fixed("self-executing-register", False, "rs b\n.\nra : a\n.\nra : a\n")
    fixed("change-in-empty-buffer", True, "ia\nb\x1bggdGsx\x1bggdGcwy\x1bggdGCz\x1b")
    # the commands that copy the word under the cursor into fixed buffers (^A ^] gd gf gl ^W]), on words around and beyond their sizes
    words = "\n".join(["a" * n for n in (118, 119, 120, 121, 130, 255, 256, 257, 300)] + ["\u6f22" * n for n in (39, 40, 41, 45, 90)] +
                      ["/" + "ab-./:" * 45, "x" * 700, "\u00e9" * 59, "\u00e9" * 60, "\u00e9" * 61]) + "\n"
    for i in range(18):
        for cmdkeys in ("\x01", "\x1d", "gd", "gf", "gl", "\x17]", "\x17gf", "\x17gl", "2\x01", "*"):
            corpus.append({"origin": "corpus/cursor-word", "vi": True, "cps": [ord(c) for c in ("%dG" % (i + 1)) + cmdkeys + "\x1b"], "size": (24, 80),
                           "file": words, "exinit": "", "k": -1})
    # the autoindent buffer of insert mode (char ai[128] in led_input): indents that add up, line after line, to around and
    # beyond its size, by typed blanks, by ^T, and under an already indented line
    for a, b in ((60, 60), (70, 70), (100, 40), (126, 1), (126, 2), (127, 1), (127, 2), (128, 0), (128, 5), (200, 0), (64, 64), (1, 127)):
        for blank in (" ", "\t"):
            corpus.append({"origin": "corpus/autoindent", "vi": True, "cps": [ord(c) for c in "i" + blank * a + "x\n" + blank * b + "y\n" + blank * 3 + "z\x1b"],
                           "size": (24, 80), "file": None, "exinit": "", "k": -1})
            corpus.append({"origin": "corpus/autoindent", "vi": True, "cps": [ord(c) for c in "o" + blank * b + "y\n" + blank * 2 + "z\x1bO" + blank + "w\x1b"],
                           "size": (24, 80), "file": blank * a + "indented\n", "exinit": "", "k": -1})
    for n, tail in ((126, " x\ny"), (127, " x\ny"), (127, "\t\tx\n\ty\n z"), (130, "x\n y"), (100, " " * 40 + "x\n" + " " * 40 + "y")):
        corpus.append({"origin": "corpus/autoindent", "vi": True, "cps": [ord(c) for c in "i" + "\x14" * n + tail + "\x1b"], "size": (24, 80),
                       "file": None, "exinit": "", "k": -1})
    # every command of the ex command table (read from the tree under test) x a pool of arguments x a pool of addresses, each as
    # a stream of its own, once in the unnamed empty buffer right after start (no current file, no alternate buffer) and once in
    # a named buffer with text after a visit to another file (so that % and # are set)
    names = sorted(set(re.findall(r'\{"([^"]*)", "([^"]*)", ec_', open(os.path.join(REPO, "ex.c")).read())))
    names = sorted({n for pair in names for n in pair if n})
    argpool = ["", " #", " %", " x", " a", " !x", " 1", " +1", " a b", " \\", " /", " a#%", "!", " =x", " \"q"]
    locpool = ["", "%", "1", "9", "0"] if not ctx.quick else ["", "%"]
    for nm in names:
        for arg in argpool:
            for loc in locpool:
                line = loc + nm + arg + "\n"
                corpus.append({"origin": "corpus/excmd-args", "vi": False, "cps": [ord(c) for c in line + ".\n" + line], "size": (24, 80), "file": None, "exinit": "", "k": -1})
                corpus.append({"origin": "corpus/excmd-args", "vi": False, "cps": [ord(c) for c in "e other\ne text\n" + line + ".\n" + line], "size": (24, 80),
                               "file": "one\ntwo a b\nthree\n", "exinit": "", "k": -1})
                if not ctx.quick or (loc == "" and arg in ("", " #", " x", " !x")):      # the same typed at the prompt of visual mode
                    corpus.append({"origin": "corpus/excmd-args-vi", "vi": True, "cps": [ord(c) for c in ":" + line + "\x1b:e other\n:" + line + "\x1b"], "size": (8, 40),
                                   "file": "one\ntwo a b\nthree\n", "exinit": "", "k": -1})
    # every option (read from the option table of the tree under test) set to small, negative and huge values, then a stream that
    # inserts, searches, prints, scrolls, splits windows, repeats prompts (history) and redraws
    onames = re.findall(r'\{"([a-z]+)", "[a-z]+", &x[a-z]+\}', open(os.path.join(REPO, "ex.c")).read())
    exercise = ("ia\tb \u05e9\u05dc\u05d5\u05dd c\n\t\tdeep \u6f22\n\x1b:p\n:1,$p\n/a\n?b\n:s/a/x/\n::\n/\n$0w\x0c\x05\x19\x17s\x17jGo2\x1b\x17kdd\x17ou\x12"
                ":e other\n:e #\n:w! o1\n:\x10\n/\x10\n!!tr a-z A-Z\n")
    for on in onames:
        for val in (-99999, -2, -1, 0, 1, 2, 3, 7, 99999, 2147483647):
            for size in ((24, 80), (4, 12)):
                corpus.append({"origin": "corpus/options", "vi": True, "cps": [ord(c) for c in ":se %s=%d\n" % (on, val) + exercise], "size": size,
                               "file": "one\ntwo\n", "exinit": "", "k": -1})
            corpus.append({"origin": "corpus/options", "vi": False, "cps": [ord(c) for c in "se %s=%d\na\nx\ty\n.\n1,$p\ns/x/y/\n/y/\ne other\ne #\nw! o2\n" % (on, val)],
                           "size": (24, 80), "file": "one\ntwo\n", "exinit": "", "k": -1})
    # every two-key vi command: a prefix key (operators, g z ^W [ ] " ' ` m @ q Z r f F t T) followed by every byte 1..126 except ^Z,
    # each as a stream of its own on a small text (thorough: also in the empty buffer, and with a count in front)
    prefixes = ["g", "z", "\x17", "[", "]", "\"", "'", "`", "m", "@", "q", "Z", "r", "f", "F", "t", "T", "c", "d", "y", "<", ">", "!", "\x17g"]
    vtext = "one (two) [three]\n\tfour\n\n{ five }\nsix é漢 שלום\n"
    for pk in prefixes:
        for b in range(1, 127):
            if b == 26:
                continue
            keys = "2j" + pk + chr(b)
            corpus.append({"origin": "corpus/vi-two-keys", "vi": True, "cps": [ord(c) for c in keys + "\x1b" + keys], "size": (24, 80), "file": vtext, "exinit": "", "k": -1})
            if not ctx.quick:
                corpus.append({"origin": "corpus/vi-two-keys", "vi": True, "cps": [ord(c) for c in pk + chr(b) + "\x1b3" + pk + "2" + chr(b)], "size": (8, 24), "file": None, "exinit": "", "k": -1})
    with ThreadPoolExecutor(NCPU) as ex:
        results = list(ex.map(lambda s: run_stream(ctx, s, safebin), streams + corpus))
    # a stream that ran out of time beside fifteen others (and whatever else the machine is doing) runs once more on its own with ten
    # times the time: slow is not stuck
    for k, (s, r) in enumerate(zip(streams + corpus, results)):
        if not r["complete"] and r["timed_out"] and not s.get("nullable") and not NULLABLE_LOOP.search(txt(s["cps"])) \
                and not inconclusive(s["vi"], txt(s["cps"]), r):
            s2 = dict(s, timeout=min(400, 10 * s.get("timeout", 20 + len(txt(s["cps"]).encode()) // 60)))
            results[k] = run_stream(ctx, s2, safebin)
            results[k]["rerun"] = 1
    st = dict(streams=len(streams), ex_streams=sum(1 for s in streams if not s["vi"]), vi_streams=sum(1 for s in streams if s["vi"]),
              set_aside_nullable_loop=len(risky), records=0, incomplete=0, inconclusive_huge_count=0, inconclusive_growth=0, states_validated=0, invariant_violations=0,
              by_origin={})
    for s, r in zip(streams + corpus, results):
        st["records"] += r["nrec"]
        st["rerun_after_timeout"] = st.get("rerun_after_timeout", 0) + r.get("rerun", 0)
        o = re.sub(r"^[ev][0-9a-f]{2}\.sh", "repo-tests", s["origin"])
        o = o if o.startswith("corpus/") else re.sub(r"/\w+", "", o)
        st["by_origin"][o] = st["by_origin"].get(o, 0) + 1
        if not r["complete"]:
            body = txt(s["cps"])
            why = inconclusive(s["vi"], body, r)
            if why:
                st[why] += 1
                continue
            st["incomplete"] += 1
            sig = {"kind": "hang" if r["timed_out"] else "crash", "what": r["sig"], "where": r.get("where", "")}
            if r["timed_out"] and (s.get("nullable") or NULLABLE_LOOP.search(body)):
                sig = {"kind": "hang", "nullable_loop": 1}
            ctx.violation("%s stream (%s, window %dx%d, EXINIT %r) did not reach its quit command: %s %s" %
                          ("vi" if s["vi"] else "ex", s["origin"], s["size"][0], s["size"][1], s["exinit"], r["sig"], r.get("where", "")),
                          {"mode": "vi -v" if s["vi"] else "vi -s -e", "origin": s["origin"], "window": s["size"], "exinit": s["exinit"], "file": s["file"],
                           "stream": body, "stream_hex": body.encode().hex(), "rc": r["rc"], "timed_out": r["timed_out"], "stderr": r["stderr"]}, sig)
    splitter(ctx, st)
    # TLC validation of the recorded states
    allst = [(i, r["states"]) for i, r in enumerate(results) if r["states"]]
    rng.shuffle(allst)
    shards = [[] for _ in range(NCPU)]
    index = [[] for _ in shards]
    tot = 0
    for i, sts in allst:
        if tot >= maxval * NCPU:
            break
        sts = sts if len(sts) <= 60 else sts[:20] + sts[-40:]
        k = min(range(NCPU), key=lambda q: len(shards[q]))
        shards[k] += [{"ev": "reset"}] + sts
        index[k].append((i, len(sts) + 1))
        tot += len(sts)
    env, _ = vidrive.lib_env(ctx)

    def validate(k):
        if not shards[k]:
            return {"violations": [], "checked": 0}
        f = ctx.path("trace", "t%d.ndjson" % k)
        with open(f, "w") as fh:
            for r in shards[k]:
                fh.write(json.dumps(r) + "\n")
        e = dict(env)
        e["TRACE"] = f
        r = tlc(ctx, "TraceInv", os.path.join(SPEC, "TraceInv.cfg"), env=e, workers=1, timeout=3000, heap="3g")
        if not r["ok"]:
            raise Infra("trace validation did not complete (shard %d): %s\n%s" % (k, r.get("error"), r["out"][-2500:]))
        v = tlc_printed(r["out"], "VIOL")
        if not v:
            raise Infra("trace validation printed no verdict (shard %d)" % k)
        return v[-1]
    with ThreadPoolExecutor(NCPU) as ex:
        verdicts = list(ex.map(validate, range(NCPU)))
    allS = streams + corpus
    for k, v in enumerate(verdicts):
        st["states_validated"] += v["checked"]
        for x in v["violations"]:
            st["invariant_violations"] += 1
            pos, owner = 0, None
            for i, ln in index[k]:
                if x["line"] <= pos + ln:
                    owner = i
                    break
                pos += ln
            s = allS[owner]
            body = txt(s["cps"])
            ctx.violation("state invariant `%s' broken in a recorded state of a %s stream (%s, window %dx%d): %s" %
                          (x["what"], "vi" if s["vi"] else "ex", s["origin"], s["size"][0], s["size"][1], json.dumps(x["detail"])[:300]),
                          {"what": x["what"], "detail": x["detail"], "mode": "vi -v" if s["vi"] else "vi -s -e", "origin": s["origin"], "window": s["size"],
                           "exinit": s["exinit"], "file": s["file"], "stream": body, "stream_hex": body.encode().hex()},
                          {"kind": "invariant", "what": x["what"]})
    samples = [{"origin": s["origin"], "mode": "vi" if s["vi"] else "ex", "window": s["size"], "exinit": s["exinit"], "stream": txt(s["cps"])[:120]}
               for s in streams[::max(1, len(streams) // 4)][:4]]
    cov = {"states": st["states_validated"], "transitions": st["records"], "traces_validated_against_impl": len(streams), "samples": samples,
           "evaluations": len(streams) + st["splitter"]["lines"], "distinct_nontrivial": len({tuple(s["cps"]) for s in streams}) + st["splitter"]["lines"],
           "rule": "one evaluation = one command stream run to its quit command on the ASan+UBSan binary under one configuration "
                   "(window, initial file, EXINIT options), or one command line split by ex_exec in the probe and compared with ExParse.tla "
                   "(every line of <= %d symbols over a %d-symbol alphabet, %d long lines around the 512-byte limit); "
                   "states = recorded editor states validated by TLC under TraceInv" % (st["splitter"]["max_len"], st["splitter"]["alphabet"], st["splitter"]["long_shapes"]),
           "stats": st,
           "explanation": "transitions = hook records produced by the runs; the sanitizers decide memory safety of every executed access, "
                          "completeness of the trace decides crash / hang, TLC decides the state invariants"}
    return ctx.finish("model_checking", cov,
                      ["stdin is not a terminal: keys arrive without timing, resize signals are not delivered",
                       "shell-outs run a stub filter instead of the user's shell",
                       "^Z (suspend) is removed from vi streams",
                       "a stream that keeps doubling the buffer (20000 lines or 100000 bytes or more when the time is up) is exponential work, not a hang: inconclusive",
                       "work proportional to a typed count is not a hang: a vi stream with a count of 10^8 or more that exceeds the time bound is inconclusive, not a violation",
                       "streams whose patterns loop over an empty-matching group are set aside (known finding of C11: the matcher backtracks without bound); "
                       "one corpus stream replays it",
                       "the time bound grows with the length of the stream (20 s + 1 s per 60 bytes on the sanitizer build): re-rendering a 9000-character "
                       "line on every key is slow, not stuck",
                       "typed text, patterns and files are valid UTF-8, as the property states"])


if __name__ == "__main__":
    run_main(main)
