#!/usr/bin/env python3
"""C16 - UTF-8 character arithmetic agrees with code points; edits keep text valid UTF-8.

(1) Utf8.tla: declarative definitions over code points and operational
    transcriptions of uc.c over bytes; TLC checks Laws (agreement + round trips)
    on every string of <= L characters over a boundary alphabet and writes the
    expected result of every helper at every offset; ucprobe.c runs uc_* of the
    repository on the same strings.
(2) every Unicode scalar value (quick: boundaries + stride): ucprobe dumps bytes,
    uc_len, uc_code and what the regex engine's private decoder does; TLC
    validates the dump against Enc / LeadLen.
(3) editing clause: validity of every buffer line in the recorded ex/vi traces
    (harness/editor.py), when present."""
import os, sys
sys.path.insert(0, os.path.dirname(os.path.dirname(os.path.abspath(__file__))))
from common import *
from regexlib import gen_tables, split_range
from probe import run_probe
import random

FIELDS = ["slen", "len", "code", "chr", "off", "next", "prev", "beg", "end", "chop", "sub", "subend"]


def scalar_values(ctx):
    if not ctx.quick:
        return [c for c in range(1, 0x110000) if not 0xD800 <= c < 0xE000]
    s = set(range(1, 0x900))
    for b in (0x800, 0x1000, 0xD800, 0xE000, 0xFFFF, 0x10000, 0x40000, 0x10FFFF):
        s.update(range(max(1, b - 40), min(0x110000, b + 40)))
    s.update(range(0x900, 0x110000, 97))
    rng = random.Random(ctx.seed)
    s.update(rng.randrange(1, 0x110000) for _ in range(3000))
    return sorted(c for c in s if not 0xD800 <= c < 0xE000)


def main(ctx, args):
    import random as _r
    rng = _r.Random(ctx.seed)
    exe = ctx.probe("ucprobe")
    st = dict(strings=0, laws=0, fields=0, scalars=0, random_strings=0)
    samples = []
    # ---- (1) strings -------------------------------------------------------
    lmax = 3 if ctx.quick else 4        # 8^5 strings with the quadratic substring tables do not finish in 25 min
    total = sum(8 ** i for i in range(lmax + 1))
    jobs = [dict(MODE="str", LO=a, HI=b) for a, b in split_range(0, total, NCPU * (1 if ctx.quick else 3))]
    alpha = [0x61, 0x7f, 0x80, 0xe9, 0x7ff, 0x800, 0x6f22, 0xffff, 0x10000, 0x1f600, 0x10ffff, 0x301, 0x627, 0x20]
    rnd = [[rng.choice(alpha) for _ in range(rng.randint(6, 60 if ctx.quick else 120))]
           for _ in range(200 if ctx.quick else 1600)]
    per = max(1, len(rnd) // (4 if ctx.quick else NCPU))
    for i in range(0, len(rnd), per):
        f = ctx.path("gen", "u8_%d.ndjson" % i)
        open(f, "w").write("".join(json.dumps(x) + "\n" for x in rnd[i:i + per]))
        jobs.append(dict(MODE="strlist", IDXFILE=f))
    tables = gen_tables(ctx, jobs, module="Gen_Utf8")
    cases = []
    for job, path in tables:
        for ln in open(path):
            cases.append(json.loads(ln))
    reqs = [bytes(c["bytes"]).hex() or "-" for c in cases]
    resps, crashes = run_probe(exe, reqs, args=["str"])
    for c, resp, cr in zip(cases, resps, crashes):
        st["strings"] += 1
        text = "".join(map(chr, c["cps"]))
        if "laws" in c:
            st["laws"] += 1
            if not c["laws"]:
                raise Infra("Utf8.tla: operational and declarative definitions disagree on %s" % c["cps"])
        else:
            st["random_strings"] += 1
        if cr is not None:
            ctx.violation("uc_* helper crashed on %r: %s" % (text, cr["stderr"][-600:]), {"cps": c["cps"], "crash": cr},
                          {"kind": "crash"})
            continue
        got = json.loads(resp)
        for f in FIELDS:
            if f not in c:
                continue
            st["fields"] += 1
            if got[f] != c[f]:
                ctx.violation("uc helper '%s' on the string %s (bytes %s): expected %s, got %s" %
                              (f, ["U+%04X" % x for x in c["cps"]], c["bytes"], c[f], got[f]),
                              {"cps": c["cps"], "bytes": c["bytes"], "field": f, "expected": c[f], "got": got[f]},
                              {"kind": "helper", "field": f})
        if len(samples) < 3 and len(c["cps"]) == 3 and max(c["cps"]) > 60000:
            samples.append({"string": ["U+%04X" % x for x in c["cps"]], "chr": c["chr"], "off": c["off"], "next": c["next"]})
    # ---- (2) scalar values --------------------------------------------------
    cps = scalar_values(ctx)
    shards = split_range(0, len(cps), NCPU)
    dumps = []
    for i, (a, b) in enumerate(shards):
        out, cr = run_probe(exe, ["%d" % x for x in cps[a:b]], args=["cps"])
        if any(cr):
            k = [j for j, x in enumerate(cr) if x][0]
            ctx.violation("probe crashed on U+%04X: %s" % (cps[a + k], cr[k]["stderr"][-600:]), {"cp": cps[a + k]}, {"kind": "crash"})
        f = ctx.path("gen", "cpdump_%d.ndjson" % i)
        open(f, "w").write("\n".join(x for x in out if x) + "\n")
        dumps.append(f)
    vt = gen_tables(ctx, [dict(MODE="cps", IN=f) for f in dumps], module="Gen_Utf8")
    for job, path in vt:
        r = json.loads(open(path).readline())
        st["scalars"] += r["checked"]
        for bad in r["bad"]:
            ctx.violation("U+%04X: uc_len/uc_code/regex decoder disagree with the encoding: %s" % (bad["cp"], bad),
                          bad, {"kind": "scalar"})
    if st["scalars"] != len(cps):
        raise Infra("scalar dump incomplete: %d of %d" % (st["scalars"], len(cps)))
    samples.append({"scalar_values_checked": len(cps), "first": cps[0], "last": cps[-1]})
    # ---- (3) editing clause --------------------------------------------------
    ed = {}
    try:
        import editor
        ed = editor.utf8_traces(ctx)
    except ImportError:
        ctx.notes.append("editing clause: editor-level traces not built yet")
    cov = {"evaluations": st["fields"] + st["scalars"], "distinct_nontrivial": st["strings"] + st["scalars"],
           "rule": "strings = all of <= %d characters over {a, U+7F, U+80, U+7FF, U+800, U+FFFF, U+10000, U+10FFFF} (every helper "
                   "at every offset) + seeded longer strings; scalar values = %s; each distinct string / code point counts once"
                   % (lmax, "all" if not ctx.quick else "U+0001..U+08FF, +-40 around every length boundary, stride 97, 3000 random"),
           "samples": samples, "exhaustive": not ctx.quick, "stats": st, "editor_level": ed,
           "explanation": "Laws(cps) of Utf8.tla (operational transcription = declarative definition, next/prev and offset "
                          "round trips, substring concatenation) evaluated by TLC on every enumerated string"}
    return ctx.finish("model_checking", cov, ["strings contain no NUL", "surrogates are not scalar values and are excluded"])


if __name__ == "__main__":
    run_main(main)
