#!/usr/bin/env python3
"""C01 - write-out equals buffer text; read-then-write reproduces the file byte for byte.

(1) TLC: spec/MC_FileIO.tla - Split/Join laws on every byte string of <= 6 bytes; the write path of lbuf_wr
    (batching, direct writes, write_fully with every short count, final flush, ftruncate over a longer target)
    and the read loop with the string-buffer capacity rule, exhaustively at BATCH = 4, CHUNK = 3, SBUFSZ = 4.
(2) binding at the real constants (4096 / 1024 / 512 / 128): the same length shapes (line lengths around the batch
    and the chunk, sums of consecutive lengths around the batch, line counts around the table sizes, targets that
    held less / the same / more, last line with and without newline, all byte values 1..255) are read and written
    by the traced binary under the shim: the bytes of the result are compared with Join of the addressed lines,
    the logged write calls must add up to it and ftruncate must be called with that length.
(3) Gen_Bufs behaviours (whole-line level): the files on disk at the end of every script."""
import os, sys, random, subprocess
sys.path.insert(0, os.path.dirname(os.path.dirname(os.path.abspath(__file__))))
from common import *
import bufdrive
from bufdrive import *
from checks_util import build_shim

B, C, T = 4096, 1024, 512
FILL = [0x61, 0x01, 0x7f, 0x80, 0xc3, 0xff, 0x20, 0x09]


def shapes(ctx):
    """lists of line lengths (bytes, without the newline)"""
    rng = random.Random(ctx.seed)
    out = []
    around = [0, 1, B - 3, B - 2, B - 1, B, B + 1, 2 * B - 1, 2 * B + 1, C - 2, C - 1, C, C + 1, 2 * C, 127, 128, 129]
    for a in around:
        out.append([a])
        for b in (0, 1, B - 2, B - 1, B):
            out.append([a, b])
            out.append([b, a, 5])
    # sums of consecutive lengths around the batch: k lines of length l with k*(l+1) = B-1, B, B+1
    for l in (0, 1, 7, 63, 1023, 2047):
        for tot in (B - 1, B, B + 1, 2 * B):
            k = tot // (l + 1)
            out.append([l] * k + [tot - k * (l + 1)])
    # line counts around the line-table sizes
    for n in (T - 2, T - 1, T, T + 1, 2 * T - 1, 2 * T, 2 * T + 1):
        out.append([rng.randint(0, 3) for _ in range(n)])
    # the full cross of range form x previous target x final newline on the smallest shapes, the empty file included
    for base in ([], [0], [1], [0, 0], [B - 1], [B, 1], [3, B - 2, 2]):
        for nonl in (False, True):
            for mode in (0, 1, 2):
                for prevkind in range(6):
                    out.append((base, nonl, mode, prevkind))
    if not ctx.quick:
        for _ in range(1500):
            out.append([rng.choice(around + [2, 3, 50, 500, 3000, 5000, 16384]) for _ in range(rng.randint(1, 6))])
        out.append([1] * (8 * T + 1))
        out.append([B * 5 + 3, 0, B * 5 - 1])
    return out


def run_case(ctx, shim, lens, k):
    """one read + write of a file with the given line lengths; returns (status, detail).
    lens may carry explicit choices as a tuple (lens, nonl, mode, prevkind)"""
    explicit = None
    if isinstance(lens, tuple):
        lens, explicit = lens[0], lens[1:]
    rng = random.Random(k * 7919 + ctx.seed)
    work = tempfile.mkdtemp(prefix="io-", dir=ctx.scratch)
    trace = work + ".trace"
    # short lines are runs of one byte value; longer ones change from position to position (period 251), so that bytes written
    # at the wrong place cannot go unnoticed; no NUL, no newline inside a line
    def fill(i, ln):
        b0 = FILL[(k + i) % len(FILL)]
        if ln < 64 or i % 2:
            return bytes([b0]) * ln
        return bytes((11 if v == 10 else v) for v in (((b0 + 7 * j) % 251) + 1 for j in range(ln)))
    lines = [fill(i, ln) for i, ln in enumerate(lens)]
    nonl = bool(lines) and (explicit[0] if explicit else k % 3 == 0)   # the input's last line lacks its newline
    data = b"\n".join(lines) + (b"" if nonl or not lines else b"\n")
    if lines and nonl and lines[-1] == b"":
        nonl = False
        data = b"\n".join(lines) + b"\n"
    open(os.path.join(work, "in"), "wb").write(data)
    n = len(lines)
    a, b = 1, n
    mode = explicit[1] if explicit else k % 5
    if n >= 2 and mode == 1:
        a, b = 2, n
    elif n >= 3 and mode == 2:
        a, b = 2, n - 1
    want = b"".join(l + b"\n" for l in lines[a - 1:b])
    prev = [None, b"", b"Z" * max(0, len(want) - 3), b"Z" * len(want), b"Z" * (len(want) + 4097),
            b"Z" * (len(want) + 1)][explicit[2] if explicit else (k // 5) % 6]
    if prev is not None:
        open(os.path.join(work, "out"), "wb").write(prev)
    force = "!" if prev is not None else ""
    rangestr = "" if (a, b) == (1, n) or n == 0 else "%d,%d" % (a, b)
    script = "e in\n%sw%s out\nq!\n" % (rangestr, force)
    env = {"PATH": os.environ.get("PATH", ""), "HOME": work, "NEATVI_VERIF_TRACE": trace, "LD_PRELOAD": shim,
           "NEATVI_SHIM_DIR": ctx.scratch}
    if k % 3 == 1:        # one write call in the sequence returns a short count (half, or one byte): the rest must follow, in place
        plan = work + ".plan"
        with open(plan, "w") as pf:
            pf.write("%d SHORT %d\n" % (2 + (k // 3) % 3, (k // 9) % 2))
        env["NEATVI_SHIM_PLAN"] = plan
    env.update(ASAN_ENV)
    try:
        p = subprocess.run([os.path.join(ctx.build(), "vi"), "-s", "-e"], input=script.encode(), capture_output=True,
                           env=env, cwd=work, timeout=60)
        rc, err = p.returncode, p.stderr.decode("utf-8", "replace")
    except subprocess.TimeoutExpired:
        rc, err = -9, "timeout"
    have = open(os.path.join(work, "out"), "rb").read() if os.path.exists(os.path.join(work, "out")) else None
    recs = [json.loads(l) for l in open(trace)] if os.path.exists(trace) else []
    shutil.rmtree(work, True)
    for junk in (trace, work + ".plan"):
        try:
            os.remove(junk)
        except OSError:
            pass
    desc = {"line_lengths": lens if len(lens) < 12 else "%d lines" % len(lens), "range": [a, b], "input_ends_with_newline": not nonl,
            "previous_target_bytes": None if prev is None else len(prev), "expected_bytes": len(want)}
    if rc != 0 or not recs or recs[-1].get("ev") != "exit":
        return "crash", dict(desc, rc=rc, stderr=err[-1500:])
    if have != want:
        firstdiff = next((i for i, (x, y) in enumerate(zip(have or b"", want)) if x != y), min(len(have or b""), len(want)))
        return "bytes", dict(desc, found_bytes=None if have is None else len(have), first_difference_at=firstdiff)
    # the recorded buffer after the read: line count and byte count
    exs = [r for r in recs if r.get("ev") == "ex" and r.get("lvl") == 0]
    lb = exs[0]["bufs"][0]["lb"]
    if lb["n"] != n or lb["bytes"] != sum(len(l) + 1 for l in lines):
        return "read", dict(desc, recorded_lines=lb["n"], recorded_bytes=lb["bytes"])
    sysc = [r for r in recs if r.get("ev") == "sys"]
    wsum = sum(r["ret"] for r in sysc if r["call"] == "write" and r["ret"] > 0)
    tr = [r["n"] for r in sysc if r["call"] == "ftruncate"]
    if wsum != len(want) or tr != [len(want)]:
        return "calls", dict(desc, written=wsum, ftruncate=tr)
    return "ok", desc


def main(ctx, args):
    cfg = ctx.path("cfg", "mc_fileio.cfg")
    consts = dict(CHUNK=3, BATCH=4, SBUFSZ=4, MaxLines=3, MaxLen=5, MaxPrev=3) if ctx.quick else \
        dict(CHUNK=3, BATCH=4, SBUFSZ=4, MaxLines=4, MaxLen=6, MaxPrev=5)
    with open(cfg, "w") as f:
        f.write("SPECIFICATION Spec\nCONSTANTS\n" + "".join(" %s = %d\n" % kv for kv in consts.items()) +
                "INVARIANT Inv\nCHECK_DEADLOCK FALSE\n")
    mc = tlc_model(ctx, "MC_FileIO", cfg, timeout=3000, heap="12g")
    shim = build_shim(ctx)
    ctx.build()
    shp = shapes(ctx)
    rng = random.Random(ctx.seed + 1)
    # random small files over all byte values are appended as explicit contents through the same path
    with ThreadPoolExecutor(NCPU) as ex:
        results = list(ex.map(lambda kv: run_case(ctx, shim, kv[1], kv[0]), enumerate(shp)))
    st = dict(shapes=len(shp), ok=0, bad=0, random_files=0)
    samples = []
    for (status, d) in results:
        if status == "ok":
            st["ok"] += 1
            if len(samples) < 3 and d["expected_bytes"] > 4096:
                samples.append(d)
        else:
            st["bad"] += 1
            ctx.violation("read/write of a file with %s: %s %s" % (d["line_lengths"], status, {k: v for k, v in d.items() if k != "line_lengths"}),
                          d, {"kind": status})
    # random files over all bytes 1..255 (newlines included): read, write whole, compare with the law of MC_FileIO
    nrand = 200 if ctx.quick else 3000

    def rnd(k):
        r = random.Random(ctx.seed * 31 + k)
        n = r.choice([0, 1, 2, 5, 40, 300, 1023, 1024, 1025, 5000, 9000])
        data = bytes(r.choice([10, 10, r.randrange(1, 256), r.randrange(1, 256), 0x61]) for _ in range(n))
        work = tempfile.mkdtemp(prefix="rf-", dir=ctx.scratch)
        open(os.path.join(work, "in"), "wb").write(data)
        env = {"PATH": os.environ.get("PATH", ""), "HOME": work}
        env.update(ASAN_ENV)
        try:
            p = subprocess.run([os.path.join(ctx.build(), "vi"), "-s", "-e"], input=b"e in\nw out\nq!\n", capture_output=True,
                               env=env, cwd=work, timeout=30)
            rc = p.returncode
        except subprocess.TimeoutExpired:
            rc = -9
        have = open(os.path.join(work, "out"), "rb").read() if os.path.exists(os.path.join(work, "out")) else None
        shutil.rmtree(work, True)
        want = data + (b"\n" if data and not data.endswith(b"\n") else b"")
        return rc == 0 and have == want, data
    with ThreadPoolExecutor(NCPU) as ex:
        for ok, data in ex.map(rnd, range(nrand)):
            st["random_files"] += 1
            if not ok:
                st["bad"] += 1
                ctx.violation("read-then-write of a random %d-byte file is not the identity" % len(data),
                              {"input_hex": data.hex()}, {"kind": "roundtrip"})
    # reading again: the buffer holds file content A, another program replaces the file by B, :e! - what :w writes is B
    CONT = [b"", b"one\n", b"a\nb\nc\n", b"x" * 5000 + b"\nend\n", b"no newline", b"\n\n", b"\xc3\xa9\n" * 600]

    def reload_case(ab):
        a, b = ab
        work = tempfile.mkdtemp(prefix="rl-", dir=ctx.scratch)
        open(os.path.join(work, "in"), "wb").write(CONT[a])
        open(os.path.join(work, "new"), "wb").write(CONT[b])
        env = {"PATH": os.environ.get("PATH", ""), "HOME": work}
        env.update(ASAN_ENV)
        outs = []
        for script in (b"e in\n!cp new in\ne!\nw! out\nq!\n", b"e in\n!cp new in\ne\nw! out\nq!\n", b"e in\n1,$d\nr new\nw! out\nq!\n"):
            open(os.path.join(work, "in"), "wb").write(CONT[a])
            try:
                p = subprocess.run([os.path.join(ctx.build(), "vi"), "-s", "-e"], input=script, capture_output=True, env=env, cwd=work, timeout=30)
                rc = p.returncode
            except subprocess.TimeoutExpired:
                rc = -9
            have = open(os.path.join(work, "out"), "rb").read() if os.path.exists(os.path.join(work, "out")) else None
            if os.path.exists(os.path.join(work, "out")):
                os.remove(os.path.join(work, "out"))
            outs.append((script, rc, have))
        shutil.rmtree(work, True)
        want = CONT[b] + (b"\n" if CONT[b] and not CONT[b].endswith(b"\n") else b"")
        return a, b, want, outs
    st["reloads"] = 0
    with ThreadPoolExecutor(NCPU) as ex:
        for a, b, want, outs in ex.map(reload_case, [(a, b) for a in range(len(CONT)) for b in range(len(CONT))]):
            for script, rc, have in outs:
                st["reloads"] += 1
                if rc != 0 or have != want:
                    st["bad"] += 1
                    ctx.violation("the file is replaced by %d bytes while the buffer holds %d bytes; after %r the written copy has %s bytes (rc %s)" %
                                  (len(CONT[b]), len(CONT[a]), script.decode(), None if have is None else len(have), rc),
                                  {"old_hex": CONT[a][:200].hex(), "new_hex": CONT[b][:200].hex(), "script": script.decode(),
                                   "written_hex": None if have is None else have[:200].hex()}, {"kind": "reload"})
    cov = {"states": mc["distinct"], "transitions": mc["generated"], "traces_validated_against_impl": st["ok"] + st["random_files"],
           "samples": samples or [results[0][1]], "evaluations": len(shp) + nrand, "distinct_nontrivial": st["ok"],
           "rule": "shapes = line-length lists around the write batch (4096), the read chunk (1024), the string-buffer quantum (128) and "
                   "the line-table sizes (512, 1024), with ranges a..b, previous target shorter / equal / longer, final newline present "
                   "or not; one evaluation = one read + write by the binary compared byte for byte; random files over bytes 1..255; "
                   "reloads: 7 x 7 pairs (old content, new content incl. the empty file) through :e!, :e and :r into the emptied buffer",
           "stats": st, "model_scope": consts, "exhaustive": True,
           "explanation": "TLC explored MC_FileIO completely for model_scope (WrittenExact, SbufOK, BufBound, Split/Join laws)"}
    return ctx.finish("model_checking", cov, ["NUL bytes are outside the property", "a failing ftruncate is not injected",
                                             "how bytes are batched into write calls is not prescribed, only their sum and the final length"])


if __name__ == "__main__":
    run_main(main)
