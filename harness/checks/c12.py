#!/usr/bin/env python3
"""C12 - the literal-pattern fast path is indistinguishable from the general engine.

Spec level (TLC): for every pattern the classifier Simple() accepts, the
transcription SimpleFind of rstr_find equals the general reference Search on the
same pattern, and no pattern with an operator is classified simple.
Code level (M2): rstr_make/rstr_find vs rset_make/rset_find vs both spec
operators on the same cases, with 4 groups requested and poisoned."""
import os, sys
sys.path.insert(0, os.path.dirname(os.path.dirname(os.path.abspath(__file__))))
from common import *
from regexlib import *
from probe import run_probe


def main(ctx, args):
    rng = random.Random(ctx.seed)
    nlit = sum(5 ** i for i in range(0, (2 if ctx.quick else 3) + 1))     # literals of length <= 2 / 3
    if ctx.quick:   # all anchors x literals <= 2 on lines <= 2; anchors x literals <= 1 on lines <= 3
        jobs = [dict(MODE="lit", LO=a, HI=b, LMAX=2) for a, b in split_range(0, 16 * nlit, NCPU - 4)]
        jobs += [dict(MODE="lit", LO=a, HI=b, LMAX=3) for a, b in split_range(0, 16 * 6, 4)]
    else:
        jobs = [dict(MODE="lit", LO=a, HI=b, LMAX=3) for a, b in split_range(0, 16 * nlit, NCPU * 4)]      # LMAX=4 (31M cases) does not finish in 50 min
    # the same over characters that differ in bit 5 only without being letters (case folding)
    jobs += [dict(MODE="lit", LO=a, HI=b, LMAX=2, ALPHA=2) for a, b in split_range(0, 16 * sum(5 ** i for i in range(0, (1 if ctx.quick else 2) + 1)), 4)]
    # the classifier on operator-bearing strings: every token sequence of <= 2 (3) tokens
    jobs += [dict(MODE="tok", LO=a, HI=b, LMAX=1) for a, b in split_range(0, count_upto(2 if ctx.quick else 3), NCPU)]
    tables = gen_tables(ctx, jobs)
    exe = ctx.probe("reprobe")
    st = dict(patterns=0, simple=0, cases=0, found=0, spec_disagree=0, classifier=0)
    samples, reqs, meta = [], [], []
    refused = []       # patterns with an operator that the engine refuses: the single-pattern matcher must refuse them too
    for job, path in tables:
        lines, cases = load_table(path)
        for c in cases:
            st["patterns"] += 1
            st["classifier"] += 1
            hp = enc(c["p"])
            ptxt = "".join(map(chr, c["p"]))
            if c["simple"] and c["hasop"]:
                # the spec's transcription of the classifier accepts an operator: decided at code level below
                ctx.notes.append("Simple() accepts operator pattern %r" % ptxt) if len(ctx.notes) < 20 else None
            if c["hasop"] and not c["simple"] and not c["ok"] and c["flaw"] not in ("hang", "overrun"):
                refused.append((ptxt, hp, enc(lines[0])))
            if not c["clean"]:
                continue
            st["simple"] += c["simple"]
            for li, f, exp, sexp, _sp in c["res"]:
                ic, nb, ne = flags_of(f)
                hl = enc(lines[li - 1])
                reqs.append("S %d %d %d %d 1 %s %s" % (ic, nb, ne, NG, hp, hl))
                reqs.append("M %d %d %d %d 1 %s %s" % (ic, nb, ne, NG, hp, hl))
                meta.append((c, ptxt, lines[li - 1], (ic, nb, ne), exp, sexp))
    resps, crashes = run_probe(exe, reqs, skipkey=lambda r: r.split()[6])
    # "a pattern containing any operator is never treated as a literal": when the engine refuses such a pattern (unclosed
    # group, reversed bounds ...) there is no matcher at all - an answer would come from searching a literal piece of it
    r2, c2 = run_probe(exe, ["S 0 0 0 %d 1 %s %s" % (NG, hp, hl) for _, hp, hl in refused], skipkey=lambda r: r.split()[6])
    st["refused_patterns"] = len(refused)
    for (ptxt, hp, hl), resp, cr in zip(refused, r2, c2):
        if cr:
            if not cr.get("skipped"):
                ctx.violation("matcher crashed on the refused pattern %r: %s" % (ptxt, cr["stderr"][-800:]), {"pattern_text": ptxt, "crash": cr}, {"kind": "crash", "anchors_only": False})
        elif not resp.startswith("E"):
            ctx.violation("pattern %r holds an operator and the engine refuses it, but the single-pattern matcher accepted it and answered %r" % (ptxt, resp),
                          {"pattern_text": ptxt, "pattern_hex": hp, "line_hex": hl, "rstr": resp}, {"kind": "refused-accepted"})
    for k, (c, ptxt, line, fl, exp, sexp) in enumerate(meta):
        st["cases"] += 1
        rs, rm = resps[2 * k], resps[2 * k + 1]
        ltxt = "".join(map(chr, line))
        rep = {"pattern": c["p"], "pattern_text": ptxt, "line": line, "flags_ic_nb_ne": fl,
               "reference": exp, "fastpath_model": sexp, "rstr": rs, "rset": rm}
        if crashes[2 * k] or crashes[2 * k + 1]:
            cr = crashes[2 * k] or crashes[2 * k + 1]
            if cr.get("skipped"):
                continue
            ctx.violation("matcher crashed on pattern %r line %r: %s" % (ptxt, ltxt, cr["stderr"][-800:]),
                          dict(rep, crash=cr), {"kind": "crash", "anchors_only": not any(x in c["p"] for x in (97, 65, 98, 233, 95))})
            continue
        s, m = parse_resp(rs, line), parse_resp(rm, line)
        if s["kind"] != "r" or m["kind"] != "r":
            ctx.violation("pattern %r: single-pattern matcher answered %s, set matcher %s" % (ptxt, rs, rm), rep,
                          {"kind": "compile"})
            continue
        if s["cuts"] or m["cuts"]:
            continue
        gs = [] if s["ret"] < 0 else s["offs"]
        gm = [] if m["ret"] < 0 else m["offs"]
        ref = exp[1:] if exp else []
        if gs:
            st["found"] += 1
        # the property: found/not-found and whole-match offsets agree with the general engine;
        # groups 1.. unset
        if bool(gs) != bool(gm) or (gs and gs[:2] != gm[:2]):
            ctx.violation("pattern %r on %r flags %s: single-pattern matcher %s, general engine %s" %
                          (ptxt, ltxt, fl, gs[:2] if gs else "no match", gm[:2] if gm else "no match"),
                          rep, {"kind": "fast-vs-general", "simple": c["simple"], "hasop": c["hasop"],
                                "noteol_lend": bool(fl[2] and c["p"] and c["p"][-1] == 36),
                                "wbeg_at0": bool(gs and gs[0] == 0 and 60 in c["p"]), "bar": 124 in c["p"]})
        elif gs and c["simple"] and any(x != -1 for x in gs[2:]):
            ctx.violation("pattern %r on %r: capture groups 1.. not reported unset by the fast path: %s" %
                          (ptxt, ltxt, gs), rep, {"kind": "groups-unset"})
        elif gs and not c["simple"] and gs != gm:
            ctx.violation("pattern %r on %r: groups differ between single-pattern and set matcher" % (ptxt, ltxt), rep,
                          {"kind": "groups"})
        # binding of the two spec operators
        if gm != ref:
            ctx.violation("general engine differs from Regex.tla on %r / %r: %s vs %s" % (ptxt, ltxt, gm, ref), rep,
                          {"kind": "general-vs-spec"})
        if c["simple"] and sexp != [-2]:
            if (gs[:2] if gs else []) != sexp:
                ctx.violation("rstr_find differs from its transcription SimpleFind on %r / %r: %s vs %s" %
                              (ptxt, ltxt, gs[:2] if gs else [], sexp), rep, {"kind": "fast-vs-transcription"})
            if sexp != (ref[:2] if ref else []):
                st["spec_disagree"] += 1
        if gs and len(samples) < 4 and len(c["p"]) > 3:
            samples.append({"pattern": ptxt, "line": ltxt, "flags_ic_nb_ne": fl, "rstr": gs, "rset": gm})
    cov = {"evaluations": st["cases"], "distinct_nontrivial": st["found"],
           "rule": "patterns = 16 anchor combinations (^, \\<, \\>, $) x every literal of <= 2 (3) characters over "
                   "{a,A,b,e-acute,_}, plus every token sequence of <= 2 (3) tokens for the classifier; lines = all of "
                   "<= 3 (4) characters over {a,A,b,e-acute,_,space} + newline; 8 flag combinations; non-trivial = the "
                   "single-pattern matcher reports a match",
           "samples": samples, "exhaustive": True, "stats": st,
           "explanation": "spec_disagree counts cases where the transcription of the fast path differs from the general "
                          "reference inside the spec (design-level defects of the fast path); each of them also shows "
                          "up as a code-level violation above unless listed as known"}
    return ctx.finish("model_checking", cov, ["comparisons in which the depth counter fired are discarded",
                                             "lines are newline-terminated, as every caller guarantees"])


if __name__ == "__main__":
    run_main(main)
