#!/usr/bin/env python3
"""C08 - operators,_inserts,_puts_and_registers: seeded behaviours generated from the reference semantics of visual mode (spec/Vi.tla via
spec/Gen_Vi.tla, profile "edit") are typed into `vi -v'; at every command boundary the recorded text, cursor (row, offset),
sticky column and registers must equal Vi!ViCmd; TLC evaluates Gen_Vi!Thm on every generated command."""
import os, sys
sys.path.insert(0, os.path.dirname(os.path.dirname(os.path.abspath(__file__))))
from common import *
import vidrive


def main(ctx, args):
    n, steps = (320, 40) if ctx.quick else (6000, 60)
    return vidrive.vi_check(ctx, "C08", "edit", n, steps,
        "scripts = seeded key sequences built from the model state over texts with ASCII words, punctuation, blanks, tabs, brackets, "
        "multi-byte, wide and combining characters and empty lines (autoindent on in one half, off in the other); one evaluation = "
        "one command compared (plus, exhaustively, every command of a fixed list from every cursor position of small buffers: profile exh); non-trivial = a command of this property after which cursor or text differ from before",
        ["the window is 23 rows x 80 columns and every buffer fits, so H M L depend on the buffer only",
         "marks after undo, numbered registers after a yank and the cursor after a multi-line character-wise put follow the code",
         "filters, tags, keymaps and digraphs are not generated"],
        exh=("edit", [8, 4, 4] if ctx.quick else [28, 27, 29], not ctx.quick),
        mc=[(1, 2)] if ctx.quick else [(1, 3), (2, 2), (3, 2)])


if __name__ == "__main__":
    run_main(main)
