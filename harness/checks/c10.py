#!/usr/bin/env python3
"""C10 - regex matches are genuine, leftmost, greedy/left-biased, with right group spans.

TLC evaluates Regex.tla (ordered parses M/Search, through the pattern-set layer)
on every token sequence up to a size x every line up to a length x 8 flag
combinations, checks on the spec that the chosen parse is a member of the
declarative language (Ends) and starts leftmost, and writes the expected result
of each case; reprobe.c runs rset_make/rset_find on the same cases."""
import os, sys
sys.path.insert(0, os.path.dirname(os.path.dirname(os.path.abspath(__file__))))
from common import *
from regexlib import *
from probe import run_probe


def main(ctx, args):
    rng = random.Random(ctx.seed)
    if ctx.quick:
        jobs = [dict(MODE="tok", LO=a, HI=b, LMAX=2) for a, b in split_range(0, count_upto(2), NCPU)]
        extra = [[rng.randint(1, NT) for _ in range(3)] for _ in range(1600)]
        extra += [[rng.randint(1, NT) for _ in range(rng.randint(4, 5))] for _ in range(800)]
    else:
        # every sequence of <= 3 tokens on lines of <= 2 characters, every sequence of <= 2 tokens on lines of <= 3 characters
        # (all three-token sequences on lines of <= 3 characters - 11.5 M cases - did not finish in 35 min)
        jobs = [dict(MODE="tok", LO=a, HI=b, LMAX=2) for a, b in split_range(0, count_upto(3), NCPU * 4)]
        jobs += [dict(MODE="tok", LO=a, HI=b, LMAX=3) for a, b in split_range(0, count_upto(2), NCPU)]
        extra = [[rng.randint(1, NT) for _ in range(rng.randint(4, 6))] for _ in range(12000)]
    # sampled longer token sequences: each index is its own LO..LO+1 range, grouped per process
    per = max(1, len(extra) // NCPU)
    for i in range(0, len(extra), per):
        f = ctx.path("gen", "idx_%d.ndjson" % i)
        open(f, "w").write("".join(json.dumps(x) + "\n" for x in extra[i:i + per]))
        jobs.append(dict(MODE="list", IDXFILE=f, LMAX=2))
    # bracket expressions: negation, ] as first member, ranges, classes, - and ^ as members, alone and in context
    M = ["a", "b", "a-b", "A", "[:alpha:]", "-", "^", "\u00e9", "[:digit:]"]
    brk = []
    for neg in ("", "^"):
        for first in ("", "]"):
            for m1 in M:
                for m2 in [""] + M:
                    if neg == "" and first == "" and m1 == "^":
                        continue
                    if m1.endswith("-b") and m2.startswith("-") or (m1 == "-" and m2 and first + neg == ""):
                        continue
                    b = "[" + neg + first + m1 + m2 + "]"
                    brk.append(b)
                    if not ctx.quick:
                        brk += [b + "+", "a" + b, "(" + b + ")*b", b + "{2}"]
    # capture groups under repetition, option and alternation: the span of every group after backtracking
    X = ["a", "ab", ".", "[ab]", "a|b", "(a)"] + ([] if ctx.quick else ["a*", "b?"])
    Q = ["*", "+", "?", "{0,2}", "{2}", ""] + ([] if ctx.quick else ["{1,}"])
    for x in X:
        for q in Q:
            g = "(" + x + ")" + q
            brk += [g, g + "b", "a" + g + "ab", g + "c|ab"] + ([] if ctx.quick else ["(" + g + ")", g + "(b)", "(a)" + g, g + g])
    # repetition bounds: {m,} with m >= 2, {m,n}, {0,} on atoms, brackets and groups, anchored and not - on lines of <= 3 characters
    bnd = []
    for x in ["a", "[ab]", "(a|b)", "."] + ([] if ctx.quick else ["(ab)"]):
        for b in ["{2,}", "{3,}", "{2,3}", "{0,}", "{1,2}"] + ([] if ctx.quick else ["{0,1}", "{3}"]):
            bnd += [x + b, "^" + x + b + "b", x + b + "$"] + ([] if ctx.quick else ["b" + x + b + "a"])
    perb = max(1, (len(bnd) + NCPU - 1) // NCPU)
    for i in range(0, len(bnd), perb):
        f = ctx.path("gen", "bnd_%d.ndjson" % i)
        open(f, "w").write("".join(json.dumps([ord(c) for c in x]) + "\n" for x in bnd[i:i + perb]))
        jobs.append(dict(MODE="cplines", IDXFILE=f, LMAX=3))
    brk = sorted(set(brk))
    per = max(1, (len(brk) + NCPU - 1) // NCPU)
    for i in range(0, len(brk), per):
        f = ctx.path("gen", "brk_%d.ndjson" % i)
        open(f, "w").write("".join(json.dumps([ord(c) for c in x]) + "\n" for x in brk[i:i + per]))
        jobs.append(dict(MODE="cplines", IDXFILE=f, LMAX=2))
    tables = gen_tables(ctx, jobs)
    exe = ctx.probe("reprobe")
    stats = dict(patterns=0, clean=0, cases=0, matched=0, cut=0, exact=0, eloop=0, thm=0)
    samples = []
    reqs, meta = [], []
    for job, path in tables:
        lines, cases = load_table(path)
        for c in cases:
            stats["patterns"] += 1
            if not c["clean"]:
                continue
            stats["clean"] += 1
            stats["eloop"] += c["eloop"]
            if not c["thm"]:
                raise Infra("Regex.tla is inconsistent with itself (ordered vs declarative) on pattern %s" % c["p"])
            stats["thm"] += len(c["res"])
            hp = enc(c["p"])
            for li, f, exp, _simple, spans in c["res"]:
                ic, nb, ne = flags_of(f)
                reqs.append("M %d %d %d %d 1 %s %s" % (ic, nb, ne, NG, hp, enc(lines[li - 1])))
                meta.append((c, lines[li - 1], (ic, nb, ne), exp, spans))
    resps, crashes = run_probe(exe, reqs, skipkey=lambda r: r.split()[6])
    for (c, line, fl, exp, spans), resp, cr in zip(meta, resps, crashes):
        stats["cases"] += 1
        rep = {"pattern": c["p"], "pattern_text": "".join(map(chr, c["p"])), "line": line, "flags_ic_nb_ne": fl,
               "expected": exp, "response": resp}
        if cr is not None and cr.get("skipped"):
            continue
        if cr is not None:
            ctx.violation("matcher crashed on pattern %r line %r: %s" % (rep["pattern_text"], line, cr["stderr"][-800:]),
                          dict(rep, crash=cr), {"kind": "crash"})
            continue
        r = parse_resp(resp, line)
        if r["kind"] != "r":
            ctx.violation("pattern %r accepted by the reference grammar: probe answered %s" % (rep["pattern_text"], resp),
                          rep, {"kind": r["kind"], "eloop": c["eloop"]})
            continue
        if r["bad"]:
            ctx.violation("%s (pattern %r)" % (r["bad"], rep["pattern_text"]), rep, {"kind": "boundary"})
            continue
        got = [] if r["ret"] < 0 else [r["ret"]] + r["offs"]
        if r["cuts"] == 0:
            stats["exact"] += 1
            if got != exp:
                ctx.violation("pattern %r on %r flags %s: expected %s, matcher gave %s" %
                              (rep["pattern_text"], "".join(map(chr, line)), fl, exp, got),
                              dict(rep, got=got), {"kind": "mismatch", "found_exp": bool(exp), "found_got": bool(got)})
        else:
            stats["cut"] += 1
            if not c["eloop"]:
                ctx.violation("depth limit hit on a %d-character line without an empty-iteration loop: pattern %r"
                              % (len(line), rep["pattern_text"]), dict(rep, cuts=r["cuts"]), {"kind": "early-cut"})
            elif got and [got[1], got[2]] not in spans:
                ctx.violation("pattern %r on %r: reported span %s is not a match of the pattern (genuine spans: %s)"
                              % (rep["pattern_text"], "".join(map(chr, line)), got[1:3], spans),
                              dict(rep, got=got), {"kind": "unsound"})
        if got:
            stats["matched"] += 1
            if len(samples) < 4 and len(c["p"]) > 4 and got[3] >= 0:
                samples.append({"pattern": rep["pattern_text"], "line": "".join(map(chr, line)),
                                "flags_ic_nb_ne": fl, "expected=got": got})
    cov = {"evaluations": stats["cases"], "distinct_nontrivial": stats["matched"],
           "rule": "patterns = every sequence of <= N tokens from Gen_Regex!Tokens (N=2 quick / 3 thorough) plus a "
                   "seeded sample of longer ones and a family of bracket expressions (negation, ] first, ranges, classes, - and ^ as members) and of groups under * + ? {m,n} and | in contexts that force backtracking, kept when the reference grammar consumes them wholly; each against "
                   "every line of <= L characters over {a,b,A,e-acute,space} + newline and all 8 flag combinations; "
                   "non-trivial = the reference finds a match (span and 3 groups compared)",
           "samples": samples, "exhaustive": True, "stats": stats,
           "spec_theorem_cases": stats["thm"],
           "explanation": "TLC checked on every case that the engine-ordered parse is a member of the declarative "
                          "language and starts at the leftmost start (spec_theorem_cases)"}
    return ctx.finish("model_checking", cov,
                      ["patterns with an empty-iteration loop are compared for soundness only when the depth counter fired",
                       "empty alternatives and () are in scope as the engine treats them"])


if __name__ == "__main__":
    run_main(main)
