#!/usr/bin/env python3
"""C03 - writes never clobber foreign or newer files; failures surface and stay dirty.

(1) guards: Gen_Bufs behaviours with external events (a file touched or rewritten by another program, writes to
    foreign and new paths, with and without '!') in lock-step against the traced binary (same run as C02/C20,
    mismatches on write commands are attributed here); MC_Bufs model-checks the guard and failure rules.
(2) fault enumeration: for 4 buffer sizes (0, 1, 520 lines = one batch and a grown line table, 1500 lines = three write batches) x 5 commands
    (w, w!, w other, wq, x) the shim first records the open/write/ftruncate/close sequence of the command, then
    every position of it is failed in turn with every error kind (and every write is cut short once); the
    recorded status, message, modified flag, undo position, a following :q (refused), a forced retry and the
    final file bytes must equal what Bufs!Step computes for the failure class."""
import os, sys, subprocess
sys.path.insert(0, os.path.dirname(os.path.dirname(os.path.abspath(__file__))))
from common import *
import bufdrive
from bufdrive import *


def build_shim(ctx):
    out = ctx.path("shim.so")
    r = subprocess.run(["gcc", "-shared", "-fPIC", "-O1", "-o", out, os.path.join(HARNESS, "shim.c"), "-ldl"],
                       capture_output=True, text=True)
    if r.returncode:
        raise Infra("shim: " + r.stderr)
    return out


def run_fault_script(ctx, script, shim, plan):
    """plan: None or (k, kind, n); applies to the command under test (the step whose cmd has a 'fault' key set
    or, for the fault-free reference run, the step at index script['under'])"""
    import tempfile
    fd, planfile = tempfile.mkstemp(prefix="plan-", dir=ctx.scratch)
    os.close(fd)
    s = Session(ctx, preload=shim, extra_env={"NEATVI_SHIM_PLAN": planfile, "NEATVI_SHIM_DIR": ctx.scratch})
    planfile2 = planfile
    res = {"status": "ok", "checked": 0, "history": [], "calls": []}
    try:
        for i, st in enumerate(script["steps"]):
            typed = bytes(st["typed"])
            under = i == script["under"]
            with open(planfile2, "w") as f:
                f.write("%d %s %d\n" % plan if (under and plan) else "0 NONE 0\n")
            res["history"].append(typed.decode())
            recs, exited = s.command(typed)
            if under:
                res["calls"] = [r for r in recs if r.get("ev") == "sys"]
            rec = recs[-1] if recs and recs[-1].get("ev") == "ex" else None
            field, why = compare(st["exp"], rec, recs, exited)
            res["checked"] = i + 1
            if field:
                res.update(status="mismatch", step=i, field=field, why=why, cmd=st["cmd"], typed=typed.decode(),
                           expected=st["exp"], recorded=(rec and {k: rec[k] for k in ("ret", "quit", "row")}))
                break
            if st["exp"]["quit"] or exited:
                break
        rc, err, rest = s.finish()
        res["straddled"] = int(time.time()) != s.t0
        if res["status"] == "ok":
            if rc != 0:
                res.update(status="crash", rc=rc, stderr=err[-2000:])
            else:
                last = script["steps"][res["checked"] - 1]
                for p, lines in (last["disk"].items() if isinstance(last["disk"], dict) else []):
                    if lines == [-1]:
                        continue
                    fp = os.path.join(s.work, p)
                    want = "".join("t%d\n" % k for k in lines)
                    have = open(fp).read() if os.path.exists(fp) else None
                    if have != want:
                        res.update(status="mismatch", step=res["checked"] - 1, field="disk", cmd=last["cmd"],
                                   typed=res["history"][-1], expected=None, recorded=None,
                                   why="file %s after the script: expected %d bytes, found %s" %
                                       (p, len(want), None if have is None else len(have)))
                        break
    finally:
        s.cleanup()
        try:
            os.remove(planfile2)
        except OSError:
            pass
    return res


def fault_enumeration(ctx):
    shim = build_shim(ctx)
    (job, path), = gen_tables(ctx, [dict(MODE="faults")], module="Gen_Bufs", timeout=600)
    table = [json.loads(ln) for ln in open(path)]
    by = {}
    for sc in table:
        sc["under"] = [i for i, s in enumerate(sc["steps"]) if "fault" in s["cmd"] and s["cmd"]["k"] in ("w", "wq", "x")][
            1 if sc["n"] > 0 or sc["kind"] == "wf" else 1]
        by[(sc["n"], sc["kind"], sc["fault"])] = sc
    st = dict(scenarios=0, runs=0, positions=0, failing_runs=0, short_runs=0, mismatches=0)
    samples = []
    jobs = []
    for n in (0, 1, 520, 1500):
        for kind in ("w", "w!", "wf", "wq", "x"):
            ref = by[(n, kind, "")]
            r0 = run_fault_script(ctx, ref, shim, None)
            st["scenarios"] += 1
            st["runs"] += 1
            if r0["status"] != "ok":
                jobs.append((ref, None, r0))
                continue
            calls = [c["call"] for c in r0["calls"]]
            st["positions"] += len(calls)
            if len(samples) < 3:
                samples.append({"lines": n, "command": kind, "calls_of_the_write": calls})
            for k, call in enumerate(calls, 1):
                if call == "open":
                    for kindname in ("EACCES", "ENOSPC"):
                        jobs.append((by[(n, kind, "open")], (k, kindname, 0), None))
                elif call == "write":
                    for kindname in ("EIO", "ENOSPC", "EINTR"):
                        jobs.append((by[(n, kind, "io")], (k, kindname, 0), None))
                    jobs.append((ref, (k, "SHORT", 0), None))
                    jobs.append((ref, (k, "SHORT", 1), None))
                    if n > 0:       # a short count, then the rest of the batch fails: partial progress is still a failure
                        jobs.append((by[(n, kind, "io")], (k, "SHORTERR", 0), None))
                        jobs.append((by[(n, kind, "io")], (k, "SHORTERR", 1), None))
                elif call == "close":
                    jobs.append((by[(n, kind, "io")], (k, "EIO", 0), None))
                elif call == "ftruncate":   # cutting the old tail off fails: success may not be reported over a longer file
                    for kindname in ("EIO", "ENOSPC"):
                        jobs.append((by[(n, kind, "io")], (k, kindname, 0), None))

    def one(j):
        sc, plan, pre = j
        if pre is not None:
            return pre
        for attempt in range(4):
            r = run_fault_script(ctx, sc, shim, plan)
            if not r.get("straddled") or r["status"] == "ok":
                break
        return r
    with ThreadPoolExecutor(NCPU) as ex:
        results = list(ex.map(one, jobs))
    for (sc, plan, pre), r in zip(jobs, results):
        st["runs"] += 1
        if plan and plan[1] == "SHORT":
            st["short_runs"] += 1
        elif plan:
            st["failing_runs"] += 1
        if r["status"] != "ok":
            st["mismatches"] += 1
            ctx.violation("%d lines, %s, injected %s: after %r: %s" %
                          (sc["n"], sc["kind"], plan, r.get("typed"), r.get("why") or r.get("stderr", "")[-300:]),
                          {"lines": sc["n"], "command": sc["kind"], "plan": plan, "result": {k: r.get(k) for k in
                           ("status", "step", "field", "why", "typed", "history", "expected", "recorded", "stderr")}},
                          {"kind": "fault", "class": sc["fault"], "field": r.get("field", r["status"]),
                           "inject": plan[1] if plan else "none"})
    return st, samples


def main(ctx, args):
    fst, samples = fault_enumeration(ctx)
    n, steps, mc = (200, 40, (2, 5)) if ctx.quick else (3000, 60, (3, 6))
    # guards: the behaviour run, attributed to C03 on write commands
    mc_cfg = ctx.path("cfg", "mc_bufs.cfg")
    with open(mc_cfg, "w") as f:
        f.write("SPECIFICATION Spec\nCONSTANTS\n NB = %d\n MaxSteps = %d\n Paths = {\"f1\", \"f2\"}\n"
                "INVARIANT Inv\nPROPERTY ActionProps\nVIEW View\nCHECK_DEADLOCK FALSE\n" % mc)
    m = tlc_model(ctx, "MC_Bufs", mc_cfg, timeout=3000, heap="16g")
    scripts = gen_bufscripts(ctx, n, steps)
    with ThreadPoolExecutor(NCPU) as ex:
        results = list(ex.map(lambda s: run_bufscript(ctx, s), scripts))
    gst = dict(scripts=len(results), commands=0, writes=0, guarded=0, own=0, other=0)
    for sc, r in zip(scripts, results):
        gst["commands"] += r["checked"]
        for s in sc["steps"][:r["checked"]]:
            if s["cmd"]["k"] in ("w", "wq", "x", "xa"):
                gst["writes"] += 1
                if s["exp"]["msg"] == "wfail":
                    gst["guarded"] += 1
        if r["status"] == "mismatch":
            # with autowrite on, leaving a modified buffer (quit, edit, switch) writes it: a divergence there is about the guards too
            auto = isinstance(r.get("expected"), dict) and r["expected"].get("aw") and r["cmd"]["k"] in ("q", "e", "b")
            if r["cmd"]["k"] in ("w", "wq", "x", "xa") or r["field"] == "disk" or auto:
                gst["own"] += 1
                ctx.violation("after %r (step %d of seed %s, history %s): %s" %
                              (r["typed"], r["step"], r["seed"], r["history"][-5:-1], r["why"]),
                              {k2: r.get(k2) for k2 in ("seed", "step", "field", "why", "cmd", "typed", "history", "expected", "recorded")},
                              {"kind": "guard", "field": r["field"], "cmd": r["cmd"]["k"]})
            else:
                gst["other"] += 1
    cov = {"evaluations": fst["runs"] + gst["writes"], "distinct_nontrivial": fst["failing_runs"] + fst["short_runs"] + gst["guarded"],
           "rule": "fault enumeration: every position of the recorded open/write/ftruncate/close sequence of the command under test "
                   "x {EACCES, ENOSPC} (open), {EIO, ENOSPC, EINTR, short by half, short to 1 byte, short and then ENOSPC on the rest} (each write), {EIO} (close), for "
                   "4 buffer sizes x 5 commands; guards: write commands of seeded Gen_Bufs behaviours with files touched / rewritten "
                   "between commands; non-trivial = a run with an injected fault, or a write refused by a guard",
           "samples": samples, "exhaustive": True, "fault_stats": fst, "guard_stats": gst,
           "model": {"states": m["distinct"], "transitions": m["generated"], "scope": "MC_Bufs NB=%d MaxSteps=%d" % mc}}
    return ctx.finish("fault_enumeration", cov,
                      ["a failing ftruncate and a write returning 0 are outside the property's fault set and not injected",
                       "after a failed write the file content is unspecified until the retry; the retry must make it exact"])


if __name__ == "__main__":
    run_main(main)
