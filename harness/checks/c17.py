#!/usr/bin/env python3
"""C17 - screen-column layout is a gap-free tiling and cursor/column mapping round-trips.

Layout.tla gives the columns of every character (visual order from the reordering of C18, widths from the
tables of the tree under test: tab to the next multiple of 8, wide 2, placeholders their declared width,
unprintable and zero-width characters one cell) and transcribes the conversions of ren.c; TLC checks Tiling and
RoundTrip on every generated line and writes the expected arrays; renprobe.c calls ren_position / ren_pos /
ren_off / ren_cursor / ren_next / ren_noeol / ren_wid on the same lines under the same options.  The width class
of code points (uc_wid, uc_isbell, uc_iscomb) is dumped by ucprobe.c and validated by TLC against linear
membership in the tables, whose sortedness (the precondition of the bisection) is checked first."""
import os, sys
sys.path.insert(0, os.path.dirname(os.path.dirname(os.path.abspath(__file__))))
from common import *
from layoutlib import *
from regexlib import gen_tables, split_range
from probe import run_probe

FIELDS = ["pos", "rpos", "roff", "rcur", "rnxt", "rprv", "noeol"]


def main(ctx, args):
    nlines = sum(14 ** i for i in range(0, 3 + 1)) if ctx.quick else sum(14 ** i for i in range(0, 4 + 1))
    cases, info = line_tables(ctx, nlines, 4 if ctx.quick else 6)
    cases += mark_tables(ctx, 30)        # nested direction marks: visual orders that are not their own inverse
    results = run_lines(ctx, cases)
    st = dict(lines=0, fields=0, reordered=0, with_tab=0, scalars=0)
    samples = []
    for c, (got, cr) in zip(cases, results):
        st["lines"] += 1
        text = "".join(map(chr, c["line"]))
        rep = {"line": c["line"], "options": {"order": c["order"], "td": c["td"], "lim": c["lim"]}}
        if not c["thm"]:
            raise Infra("Layout.tla: Tiling / RoundTrip fail on the reference itself for %s" % rep)
        if cr is not None:
            ctx.violation("layout functions crashed on %r %s: %s" % (text, rep["options"], cr["stderr"][-600:]), dict(rep, crash=cr), {"kind": "crash"})
            continue
        st["reordered"] += c["reo"]
        st["with_tab"] += 9 in c["line"]
        for f in FIELDS:
            st["fields"] += 1
            if got[f] != c[f]:
                ctx.violation("%s of %s under %s: expected %s, got %s" % (f, ["U+%04X" % x for x in c["line"]], rep["options"], c[f], got[f]),
                              dict(rep, field=f, expected=c[f], got=got[f]), {"kind": "layout", "field": f})
                break
        if got["wid"] != c["pos"][-1]:
            ctx.violation("ren_wid of %s: expected %d got %d" % (c["line"], c["pos"][-1], got["wid"]), rep, {"kind": "layout", "field": "wid"})
        if len(samples) < 3 and c["reo"] and 9 in c["line"] and len(c["line"]) > 3:
            samples.append({"line": ["U+%04X" % x for x in c["line"]], "options": rep["options"], "columns": c["pos"], "ren_off": c["roff"]})
    # width classes of code points
    exe = ctx.probe("ucprobe")
    if ctx.quick:
        cps = sorted(set(range(1, 0x3100)) | set(range(0x3100, 0x110000, 61)) |
                     {x for r in (0xA66F, 0xFB1E, 0xFE00, 0xFE10, 0x1F200, 0x20000, 0x2FFFF, 0x30000, 0xE0100, 0x10FFFF)
                      for x in range(max(1, r - 20), min(0x110000, r + 20))})
        cps = [c for c in cps if not 0xD800 <= c < 0xE000]
    else:
        cps = [c for c in range(1, 0x110000) if not 0xD800 <= c < 0xE000]
    env, _ = lib_env(ctx)
    dumps = []
    for i, (a, b) in enumerate(split_range(0, len(cps), NCPU)):
        out, cr = run_probe(exe, ["%d" % x for x in cps[a:b]], args=["cps"])
        f = ctx.path("gen", "wdump_%d.ndjson" % i)
        open(f, "w").write("\n".join(x for x in out if x) + "\n")
        dumps.append(f)
    for job, path in gen_tables(ctx, [dict(MODE="cps", IN=f, **env) for f in dumps], module="Gen_Layout", timeout=3000):
        r = json.loads(open(path).readline())
        st["scalars"] += r["checked"]
        if not r["tables_ok"]:
            ctx.violation("the width tables of uc.c are not sorted / disjoint (bisection precondition)", {}, {"kind": "tables"})
        for bad in r["bad"][:5]:
            ctx.violation("U+%04X: width class / bell / combining disagree with the tables: %s" % (bad["cp"], bad), bad, {"kind": "widthclass"})
    if st["scalars"] != len(cps):
        raise Infra("width dump incomplete")
    cov = {"evaluations": st["fields"] + st["scalars"], "distinct_nontrivial": st["lines"],
           "rule": "lines = all of <= 3 (4) characters over {a, tab, wide, zero-width, ZWNJ placeholder, two Arabic letters, space, hyphen, "
                   "digit, e-acute, fatha, tatweel} + newline, each under 4 (6) of the 60 combinations of order x textdirection x linelimit (2, 256, exactly the line length, one less); "
                   "every offset and column of every line; code points: %s" % ("all" if not ctx.quick else "U+0001..U+30FF, stride 61, table edges"),
           "samples": samples, "stats": st, "tables": info, "exhaustive": not ctx.quick,
           "explanation": "TLC evaluated Tiling and RoundTrip of Layout.tla on every generated line (thm) before writing the expected arrays"}
    return ctx.finish("model_checking", cov, ["lines with the characters of the configured direction marks are left to C18 (permutation only)",
                                             "terminal character widths are assumed to agree with the editor's tables"])


if __name__ == "__main__":
    run_main(main)
