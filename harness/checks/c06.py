#!/usr/bin/env python3
"""C06 - ex line commands: seeded behaviours generated from the reference semantics (spec/Ex.tla via spec/Gen_Ex.tla,
profile "lines") are typed into `vi -s -e'; after every prompt line the recorded text, current line, printed
output, registers, marks and status must equal what Ex!ExLine computes.  TLC also evaluates the spec's own
properties (Gen_Ex!Thm) on every generated line."""
import os, sys
sys.path.insert(0, os.path.dirname(os.path.dirname(os.path.abspath(__file__))))
from common import *
import editor


def main(ctx, args):
    n, steps = (640, 30) if ctx.quick else (8000, 40)
    return editor.ex_check(ctx, "C06", "lines", n, steps,
        "scripts = seeded pseudo-random prompt lines built from the model state (addresses in, at and out of range; marks; "
        "patterns; registers; text blocks incl. empty and multi-byte; :r, :range!filter, :@m), plus exhaustively every sequence of two "
        "(thorough: three) prompt lines over a list of 31 command lines from a three-line buffer (profile exh); one evaluation = one prompt line compared; "
        "non-trivial = a line with a command of this property that changed the text or printed something",
        ["marks on replaced lines and after undo are not constrained", "message wording is not compared",
         "the filter of the scripts is tr a-z A-Z, run with the option writeany; file commands other than :r are covered by C01-C03, C20"],
        exh=True, mc_depth=3 if ctx.quick else 5)


if __name__ == "__main__":
    run_main(main)
