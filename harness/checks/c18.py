#!/usr/bin/env python3
"""C18 - bidi reordering is a permutation reversing exactly the opposite-direction runs; shaping.

Layout.tla defines the base direction (Ctx), the opposite-direction runs directly over character classes
(R (N|R)* R in a left-to-right line, L [^R \\ ` $ ']* L in a right-to-left one; leftmost, longest) and Reorder
(each run reversed in place, everything else and the newline fixed) - independently of the regex engine that
dir.c uses - and the joining rules of shaping over the presentation forms of the Unicode character database.
TLC writes the expected direction, visual order and shaped code point for every generated line / context;
renprobe.c calls dir_context, dir_reorder and uc_shape.  Lines containing the characters of the configured
direction marks ($, backslash) are checked for the permutation property only."""
import os, sys
sys.path.insert(0, os.path.dirname(os.path.dirname(os.path.abspath(__file__))))
from common import *
from layoutlib import *
from regexlib import gen_tables


def main(ctx, args):
    nlines = sum(14 ** i for i in range(0, 3 + 1)) if ctx.quick else sum(14 ** i for i in range(0, 4 + 1))
    cases, info = line_tables(ctx, nlines, 3 if ctx.quick else 5)
    n20 = sum(21 ** i for i in range(0, 2 + 1)) if ctx.quick else sum(21 ** i for i in range(0, 3 + 1))
    mcases, _ = line_tables(ctx, n20, 2, mode="marks")
    mcases += mark_tables(ctx, 30)          # all 30 option combinations
    results = run_lines(ctx, cases + mcases)
    st = dict(lines=0, with_runs=0, rtl_context=0, mark_lines=0, shape_cases=0, shaped=0)
    samples = []
    for c, (got, cr) in zip(cases + mcases, results):
        st["lines"] += 1
        text = "".join(map(chr, c["line"]))
        rep = {"line": c["line"], "options": {"order": c["order"], "td": c["td"], "lim": c["lim"]}}
        if not (c["perm"] and (c["ident"] or c["marks"]) and c["agree"]):
            raise Infra("Layout.tla / Bidi.tla: Reorder is not a permutation, not the identity without opposite-direction characters, or the "
                        "declarative and the operational definitions disagree: %s" % rep)
        if cr is not None:
            ctx.violation("direction functions crashed on %r %s: %s" % (text, rep["options"], cr["stderr"][-600:]), dict(rep, crash=cr), {"kind": "crash"})
            continue
        n = len(c["line"])
        if sorted(got["vis"]) != list(range(n)) or got["vis"][n - 1] != n - 1:
            ctx.violation("visual order of %s under td=%d is not a permutation with the newline last: %s" %
                          (["U+%04X" % x for x in c["line"]], c["td"], got["vis"]), dict(rep, got=got["vis"]), {"kind": "perm"})
            continue
        if c["marks"]:
            st["mark_lines"] += 1
        if got["ctx"] != c["ctx"]:
            ctx.violation("base direction of %s under td=%d: expected %d got %d" % (["U+%04X" % x for x in c["line"]], c["td"], c["ctx"], got["ctx"]),
                          dict(rep, expected=c["ctx"], got=got["ctx"]), {"kind": "context"})
            continue
        st["rtl_context"] += c["ctx"] < 0
        if got["vis"] != c["vis"]:
            ctx.violation("visual order of %s under td=%d: expected %s, got %s" % (["U+%04X" % x for x in c["line"]], c["td"], c["vis"], got["vis"]),
                          dict(rep, expected=c["vis"], got=got["vis"]), {"kind": "reorder"})
            continue
        if c["vis"] != list(range(n)):
            st["with_runs"] += 1
            if len(samples) < 3 and n > 3:
                samples.append({"line": ["U+%04X" % x for x in c["line"]], "td": c["td"], "base_direction": c["ctx"], "visual_index": c["vis"]})
    # shaping: every letter x neighbours x interposed diacritics
    # the order as the screen gets it (ren_position -> ren_position_reorder), under every option combination: Latin runs of pure-ASCII
    # lines in right-to-left contexts, and the nested-mark lines; the columns of single-width characters are their visual indices
    from layoutlib import LATIN_LINES, MARK_LINES
    pcases = mark_tables(ctx, 30, LATIN_LINES, "latin") + mark_tables(ctx, 30)
    st["screen_order_cases"] = 0
    for c, (got, cr) in zip(pcases, run_lines(ctx, pcases)):
        st["screen_order_cases"] += 1
        rep = {"line": c["line"], "options": {"order": c["order"], "td": c["td"], "lim": c["lim"]}}
        if cr is not None or got is None:
            ctx.violation("layout functions crashed on %s %s" % (c["line"], rep["options"]), dict(rep, crash=cr), {"kind": "crash"})
        elif got["pos"] != c["pos"]:
            ctx.violation("columns (visual order on the screen) of %r under %s: expected %s, got %s" % ("".join(map(chr, c["line"])), rep["options"], c["pos"], got["pos"]),
                          dict(rep, expected=c["pos"], got=got["pos"]), {"kind": "screen-order"})
    env, _ = lib_env(ctx)
    (job, path), = gen_tables(ctx, [dict(MODE="shape", **env)], module="Gen_Layout", timeout=1200)
    scases = [json.loads(ln) for ln in open(path)]
    for c in scases:
        c.update(order=1, td=0, lim=256)
    sres = run_lines(ctx, scases)
    for c, (got, cr) in zip(scases, sres):
        st["shape_cases"] += 1
        if cr is not None or got is None:
            ctx.violation("uc_shape crashed on %s" % c["line"], {"line": c["line"], "crash": cr}, {"kind": "crash"})
            continue
        st["shaped"] += c["want"] != c["line"][c["at"]]
        if got["shape"] != c["want"]:
            ctx.violation("shaping of U+%04X in %s: expected U+%04X, got U+%04X" % (c["line"][c["at"]], ["U+%04X" % x for x in c["line"]], c["want"], got["shape"]),
                          {"line": c["line"], "at": c["at"], "expected": c["want"], "got": got["shape"]}, {"kind": "shape"})
    samples.append({"shaping_contexts": st["shape_cases"], "example": {"line": ["U+%04X" % x for x in scases[100]["line"]], "shaped": "U+%04X" % scases[100]["want"]}})
    cov = {"evaluations": st["lines"] + st["shape_cases"], "distinct_nontrivial": st["with_runs"] + st["shaped"],
           "rule": "lines = all of <= 3 (4) characters over 14 class representatives under 3 (5) option combinations each, plus all lines of "
                   "<= 2 (3) characters over those and the mark characters $ \\ { } [ ] * and 16 longer lines with nested marks in both base "
                   "directions (order compared with the operational definition Bidi!ReorderOp); shaping = 45 letters x 10 x 10 "
                   "neighbours x 3 diacritic settings; non-trivial = a line with a reversed run / a letter that takes a presentation form",
           "samples": samples, "stats": st, "tables": info, "exhaustive": True}
    return ctx.finish("model_checking", cov, ["the right-to-left and neutral sets are the configured ones (conf.h of the tree under test)",
                                             "for lines with direction marks the reference is the operational definition (dir_fix over the configured patterns with the matcher of Regex.tla)"])


if __name__ == "__main__":
    run_main(main)
