#!/usr/bin/env python3
"""C19 - the terminal shows a true window of the buffer with the cursor on its character.

spec/Term.tla is a terminal as a state machine over a grid of cells with one action per control function neatvi emits
(CUP, CR, LF with scrolling in the region, CUF, CUB, EL, IL, DL, DECSTBM, printing with character widths) and Render, what a
full repaint of a window shows.  spec/TraceTerm.tla consumes, in program order, the bytes the traced `vi -v' wrote to its
terminal (lexed into control functions by ttylex.py) and the editor state recorded at every command boundary; TLC validates
the trace: at every boundary the grid rows of the window equal Render of the recorded lines / top / left, the cursor line is
inside the window and the terminal cursor is on the cell of the cursor character.  Key streams: Gen_Vi behaviours (motions,
edits, undo) with scroll, redraw, option and ex keys inserted between commands, in windows from 4x12 to 24x80."""
import os, sys, random
sys.path.insert(0, os.path.dirname(os.path.dirname(os.path.abspath(__file__))))
from common import *
import vidrive, ttylex
from editor import run_vi, lines_of, txt
from concurrent.futures import ThreadPoolExecutor

EXTRA = [b"\x05", b"\x19", b"\x04", b"\x15", b"\x06", b"\x02", b"z\n", b"z.", b"z-", b"3\x05", b"2\x19", b":3\n", b":$\n",
         b":se hll\n", b":se nohll\n", b":se nohl\n", b":se hl\n", b"u", b"\x12", b"\x0c", b"\x07", b"G", b"1G", b"$", b"0",
         b"ggyGP", b"c5jXY\x1b", b"3ccZ\x1b", b"cGq\x1b", b"c}w\x1b", b"d4j", b"5dd", b"dG", b"4J", b"3>>", b"c9j\x1b", b"2Gc7jQ\x1b", b"d}", b"5x", b"yjP", b"y3jp",
         b"3Gc9jNEW\x1b", b"HcLx\x1b", b"McGy\x1b", b"Hd2j", b"Lc2kz\x1b", b"\x04c3jw\x1b", b"\x05\x05c4jv\x1b",
         b":1,2p\n\n", b":s/a/AAAAAAAAAAAAAAAAAAAAAAAAAAAAAAAAAAAAAAAAAAAAAAAAAAAAAAAAAAAAAAAAAA/\n", b"yyP", b"dd", b"5o\x1b", b"J",
         b":2d|se xyz\n", b":1,3p|se xyz\n\n", b":$d|9999\n", b":e +99 nosuchfile\n:e #\n"]      # ex lines that change the text and then fail
SIZES = [(5, 14), (8, 24), (12, 40), (24, 80), (4, 12), (24, 30), (11, 40), (9, 24)]       # odd heights: two windows of different height


CORPUS = [(b"ia\nb\nc\x1bggdGsx\x1b", (6, 24)), (b"ia\nb\nc\x1bggdGcwx\x1b", (6, 24)), (b"ia\nb\nc\x1bggdGCx\x1b", (8, 24)),
          # a change that begins above the window (vi_drawfix)
          (b"i1\n2\n3\n4\n5\n6\n7\n8\n9\x1bgg\x05\x05\x05:1,5d\nu:1,2s/^/x/\nu", (5, 14)),
          (b"i1\n2\n3\n4\n5\n6\n7\n8\n9\x1bG:1,3d\n:u\n", (4, 12)),
          # an insert whose autoindent scrolls the window sideways and Esc brings it back
          (b"i\t\tx } y\n\tind x\n\x1b", (4, 12)), (b"i\t\tx } y\n\tind x\n\x1bkk", (4, 12))]


def session(ctx, sc, k):
    rng = random.Random(ctx.seed * 7919 + k)
    R, C = SIZES[k % len(SIZES)]
    keys = b""
    # lines longer than the window and column motions around its width: horizontal scrolling
    wide = [b"$", b"%d|" % (C + 1), b"%d|" % C, b"%d|" % (C - 1), b"%d|" % (C + C // 2), b"%d|" % (C // 2 + 1), b"%d|" % (2 * C + 1), b"0", b"$", b"%d|" % (C + 2),
            b"A " + b"wide words and more " * 5 + b"\x1b", b"$", b"%dh" % (C // 2), b"%dl" % (C // 2), b"b", b"w", b"^", b"$",
            # from far right back to the columns around the window width, in one go
            b"A " + b"wide words and more " * 5 + b"\x1b$%d|" % (C + 1), b"$%d|" % (C + 1), b"$%d|" % C, b"$%d|" % (C + 2), b"$%d|" % (C - 1),
            b"$%d|" % (2 * C), b"$%d|" % (2 * C + 1), b"$0", b"$^", b"$%dh" % (C - 1), b"$%dh" % C, b"$%dh" % (C + 1)]
    # one session in four edits a named file and splits, switches, swaps and closes windows (^W s j k x o c): the active window's
    # rows, wherever they begin on the terminal, must be a repaint of its buffer
    windows = k % 4 in (2, 3) and R >= 8
    wcmds = [b"\x17s", b"\x17j", b"\x17k", b"\x17x", b"\x17o", b"\x17c", b"\x17s", b"\x17j", b"\x17k", b"\x17x", b"w\x17gd", b"\x17s\x17j4j\x17x"]
    for s in sc["steps"]:
        keys += txt(s["keys"]).encode("utf-8", "surrogateescape")
        if rng.random() < 0.3:
            keys += rng.choice(EXTRA)
        if rng.random() < 0.2:
            keys += rng.choice(wide)
        if windows and rng.random() < 0.25:
            keys += rng.choice(wcmds)
    return session_keys(ctx, keys, (R, C), sc["seed"], args=["wfile"] if windows else ())


def session_keys(ctx, keys, size, seed=0, args=()):
    R, C = size
    recs, rc, err, to, work = run_vi(ctx, ["-v"] + list(args), keys + b":q!\n:q!\n", timeout=30,
                                     env_extra={"LINES": str(R), "COLUMNS": str(C), "NEATVI_VERIF_TTY": "1"})
    shutil.rmtree(work, True)
    out = [{"ev": "reset", "R": R, "C": C}]
    pend = b""
    first = True
    nvi = 0
    for r in recs:
        ev = r.get("ev")
        if ev == "tty":
            pend += bytes.fromhex(r["s"])
        elif ev == "vi":
            if pend:
                out.append({"ev": "tty", "ops": ttylex.lex(pend)})
                pend = b""
            lb = r["bufs"][0]["lb"]
            chk = 1 if (first or r["done"]) and r["w_cnt"] in (1, 2) and "lines" in lb and not r["quit"] and r["opts"]["td"] == 0 else 0
            # Term.tla draws lines of left-to-right base direction: once right-to-left letters are in the buffer (a session that typed
            # ^F in insert mode has switched to the alternate keymap) the boundaries are not compared
            if chk and any(0x590 <= c <= 0x8ff or 0xfb1d <= c <= 0xfdff or 0xfe70 <= c <= 0xfeff for l in lines_of(lb) for c in l):
                chk = 0
            # two windows (vi_switch): the upper one has the rows [0, R/2), the lower one [R/2, R); each ends with its message row
            beg = R // 2 if r["w_cnt"] == 2 and r.get("w_cur") == 1 else 0
            out.append({"ev": "vi", "chk": chk, "beg": beg, "two": 1 if r["w_cnt"] == 2 else 0, "lines": lines_of(lb) if "lines" in lb else [], "top": r["top"], "left": r["left"],
                        "row": r["row"], "xcol": r["xcol"], "rows": r["rows"], "cols": r["cols"]})
            first = False
            nvi += 1
    complete = bool(recs) and recs[-1].get("ev") == "exit" and rc == 0
    return {"recs": out, "complete": complete, "nvi": nvi, "keys": keys, "size": (R, C), "stderr": err[-1500:], "seed": seed, "args": list(args),
            "nvi2": sum(1 for x in out if x["ev"] == "vi" and x["chk"] and x.get("two"))}


def validate_one(ctx, recs, tag):
    env, _ = vidrive.lib_env(ctx)
    f = ctx.path("trace", "%s.ndjson" % tag)
    with open(f, "w") as fh:
        for r in recs:
            fh.write(json.dumps(r) + "\n")
    e = dict(env)
    e["TRACE"] = f
    r = tlc(ctx, "TraceTerm", os.path.join(SPEC, "TraceTerm.cfg"), env=e, workers=1, timeout=600, heap="2g")
    v = tlc_printed(r["out"], "VIOL") if r["ok"] else None
    if not v:
        raise Infra("trace validation failed: %s" % r["out"][-1500:])
    return v[-1]["violations"]


def replay(ctx, r):
    """re-run the key stream of a replay file; VERIF_C19_MIN=1 also shrinks it while the screen still goes wrong"""
    ctx.build()
    keys, size = bytes.fromhex(r["keys_hex"]), tuple(r["window"])
    n = [0]

    def bad(k):
        n[0] += 1
        s = session_keys(ctx, k, size, args=r.get("args") or ())
        return s["complete"] and validate_one(ctx, s["recs"], "r%d" % (n[0] % 16))
    v = bad(keys)
    print("violations:", json.dumps(v)[:600] if v else v)
    if v and os.environ.get("VERIF_C19_MIN"):
        import termemu

        def bad(k):        # search aid only: rows before and after a final redraw differ
            s = session_keys(ctx, k + b"\x0c", size, args=r.get("args") or ())
            return s["complete"] and termemu.stale_rows(s["recs"], *size)
        if not bad(keys):
            print("the redraw heuristic does not see it; not shrinking")
            return 1
        parts = [c.encode() for c in keys.decode("utf-8", "replace")]
        chunk = max(1, len(parts) // 2)
        while chunk >= 1:
            i = 0
            while i < len(parts):
                cand = parts[:i] + parts[i + chunk:]
                if cand and bad(b"".join(cand)):
                    parts = cand
                else:
                    i += chunk
            chunk //= 2
        print("minimal keys: %r window %s; TLC on them: %s" % (b"".join(parts), size, json.dumps(validate_one(ctx, session_keys(ctx, b"".join(parts), size)["recs"], "min"))[:500]))
    if v:
        print("VIOLATION property=C19 replay=%s" % os.path.abspath(sys.argv[sys.argv.index("--replay") + 1]))
    return 1 if v else 0


def main(ctx, args):
    if args.replay_obj:
        return replay(ctx, args.replay_obj)
    n, steps = (48, 40) if ctx.quick else (900, 60)
    scripts = vidrive.gen(ctx, "mot", n // 3, steps) + vidrive.gen(ctx, "edit", n - n // 3, steps, ai=0)
    ctx.build()
    with ThreadPoolExecutor(NCPU) as ex:
        sess = list(ex.map(lambda ks: session(ctx, ks[1], ks[0]), enumerate(scripts)))
        # the key streams of the repaired defects run on every execution
        sess += list(ex.map(lambda kz: session_keys(ctx, kz[0], kz[1], -1), CORPUS))
    st = dict(sessions=len(sess), boundaries=0, checked=0, events=0, violations=0, incomplete=0)
    # shards of sessions -> one TLC trace validation each
    env, _ = vidrive.lib_env(ctx)
    # TLC renders every row at every boundary: a session that has made lines of thousands of characters (repeated :s with a long
    # replacement, counted puts) costs minutes on its own; such sessions are left out of the validation and counted
    keep = []
    for s in sess:
        longest = max([len(l) for r in s["recs"] if r["ev"] == "vi" for l in r["lines"]] + [0])
        # (TLC integers have 32 bits: a recorded column or row beyond them - a count of 10^9 - cannot be read back)
        big = any(abs(r[k]) > 2000000000 for r in s["recs"] if r["ev"] == "vi" for k in ("top", "left", "row", "xcol", "rows", "cols"))
        if longest > 1200 or big:
            st["skipped_long_lines"] = st.get("skipped_long_lines", 0) + 1
        else:
            keep.append(s)
    sess = keep
    shards = [[] for _ in range(min(NCPU if ctx.quick else 3 * NCPU, len(sess)))]
    index = [[] for _ in shards]
    for i, s in enumerate(sess):
        if not s["complete"]:
            st["incomplete"] += 1
            ctx.notes.append("incomplete session (C05): %s" % s["stderr"][-200:]) if len(ctx.notes) < 5 else None
        shards[i % len(shards)] += s["recs"]
        index[i % len(shards)].append((i, len(s["recs"])))
        st["boundaries"] += s["nvi"]
        st["two_window_boundaries"] = st.get("two_window_boundaries", 0) + s["nvi2"]

    def validate(k, heap="3g"):
        f = ctx.path("trace", "t%d.ndjson" % k)
        with open(f, "w") as fh:
            for r in shards[k]:
                fh.write(json.dumps(r) + "\n")
        e = dict(env)
        e["TRACE"] = f
        r = tlc(ctx, "TraceTerm", os.path.join(SPEC, "TraceTerm.cfg"), env=e, workers=1, timeout=3000, heap=heap)
        if not r["ok"]:
            m = re.search(r"(?s)overridden by the Java method.{0,1200}", r["out"])
            raise Infra("trace validation did not complete (shard %d): %s\n%s\n%s" % (k, r.get("error"), m.group(0) if m else "", r["out"][-1500:]))
        v = tlc_printed(r["out"], "VIOL")
        if not v:
            raise Infra("trace validation printed no verdict (shard %d)" % k)
        return v[-1], len(shards[k])
    def attempt(k):
        try:
            return validate(k)
        except Infra as x:
            return x
    with ThreadPoolExecutor(NCPU) as ex:
        verdicts = list(ex.map(attempt, range(len(shards))))
    # a shard that did not complete while sixteen ran side by side (memory) is run again on its own with a larger heap
    for k, v in enumerate(verdicts):
        if isinstance(v, Infra):
            ctx.notes.append("shard %d was validated again on its own: %s" % (k, str(v)[:300]))
            verdicts[k] = validate(k, heap="10g")
    samples = []
    for k, (v, nev) in enumerate(verdicts):
        st["events"] += nev
        st["checked"] += v["checked"]
        for x in v["violations"]:
            st["violations"] += 1
            # which session does trace line x.line belong to?
            pos, owner = 0, None
            for i, ln in index[k]:
                if x["line"] <= pos + ln:
                    owner = i
                    break
                pos += ln
            s = sess[owner] if owner is not None else None
            ctx.violation("%s at a command boundary (window %sx%s, seed %s): %s" %
                          (x["what"], s and s["size"][0], s and s["size"][1], s and s["seed"], json.dumps(x["detail"])[:400]),
                          {"what": x["what"], "detail": x["detail"], "trace_line": x["line"], "window": s and s["size"],
                           "keys_hex": s and s["keys"].hex(), "keys": s and s["keys"].decode("utf-8", "replace"), "args": s and s["args"]},
                          {"kind": x["what"]})
    # ---- where the window goes: scroll commands, H M L and edits in small windows against Vi!Scroll / Vi!WFix ----
    nscr = 48 if ctx.quick else 1200
    wscripts = vidrive.gen(ctx, "scroll", nscr // 2, 40, ai=1, rows=6) + vidrive.gen(ctx, "scroll", nscr // 4, 40, ai=0, rows=3) + \
        vidrive.gen(ctx, "scroll", nscr // 4, 40, ai=1, rows=11)
    for sc in wscripts:
        for s_ in sc["steps"]:
            if not s_["thm"]:
                raise Infra("Vi.tla violates its own properties (Thm) at seed %s" % sc["seed"])
    with ThreadPoolExecutor(NCPU) as ex:
        wres = list(ex.map(lambda s_: vidrive.run_script(ctx, s_), wscripts))
    st.update(window_scripts=len(wscripts), window_commands=0, scroll_commands=0, window_mismatch_other=0)
    for sc, r in zip(wscripts, wres):
        st["window_commands"] += r["checked"]
        st["scroll_commands"] += sum(1 for s_ in sc["steps"][:r["checked"]] if s_["kind"] == "scr")
        if r["status"] == "mismatch":
            if r["field"] == "window" or r["kind"] == "scr":
                st["violations"] += 1
                ctx.violation("after %r (%s, step %d of seed %s, %d text rows, history %s): %s - expected cursor line %s top %s, recorded line %s top %s" %
                              (r["keys"], r["sub"], r["step"], r["seed"], sc["rows"], r["history"][-4:-1], r["field"], r["expected"]["row"],
                               r["expected"].get("top"), r["got"]["row"], r["got"]["top"]),
                              {k: r[k] for k in ("seed", "step", "field", "kind", "sub", "keys", "history", "expected", "got")},
                              {"kind": "window", "field": r["field"], "cmd": r["sub"]})
            else:
                st["window_mismatch_other"] += 1
    for s in sess[:2]:
        samples.append({"window": s["size"], "keys": s["keys"].decode("utf-8", "replace")[:160], "command_boundaries": s["nvi"]})
    cov = {"states": st["events"] + len(shards), "transitions": st["events"], "traces_validated_against_impl": st["sessions"], "samples": samples,
           "evaluations": st["checked"], "distinct_nontrivial": st["checked"],
           "rule": "(the second part: scroll commands ^E ^Y ^D ^U ^F ^B z<CR> z. z-, H M L and edits in windows of 3, 6 and 11 text rows, "
                   "window top and cursor compared with Vi!Scroll / Vi!WFix after every command) "
                   "one evaluation = one command boundary at which the whole window (every row) and the cursor cell were compared with a repaint "
                   "of the recorded buffer window; sessions = Gen_Vi key streams with scroll / redraw / option / ex keys inserted, windows "
                   "%s" % SIZES, "stats": st,
           "explanation": "states/transitions = trace events consumed by TLC under TraceTerm (terminal control functions and command boundaries); "
                          "completeness by the diameter postcondition"}
    return ctx.finish("model_checking", cov, ["terminal character widths are assumed to agree with the editor's tables",
                                             "only the active, unsplit window with left-to-right base direction is compared; the status row is not",
                                             "attributes (SGR) are ignored"])


if __name__ == "__main__":
    run_main(main)
