#!/usr/bin/env python3
"""C11 - any pattern string is safely rejected or compiled; matching stays in bounds.

Spec level (TLC): ParseRe (the parser of regex.c as a function, with the places
where malformed input is mishandled named as flaws), CountEst (regcomp's size
estimate) and EmitLen (what the emitter writes) on every symbol string up to a
length; Fits == EmitLen <= CountEst must hold for every accepted pattern.
Code level (M2, ASan/UBSan probe): the same strings and seeded random byte
strings go through rset_make / rstr_make; accept/reject and the reserved / used
program sizes must equal the spec's, every compiled pattern is matched against a
family of lines under all flags: no crash, no time-out, offsets within the line
and on character boundaries."""
import os, sys
sys.path.insert(0, os.path.dirname(os.path.dirname(os.path.abspath(__file__))))
from common import *
from regexlib import *
from probe import run_probe

NS = 21
RAWBYTES = bytes(x for x in range(1, 256) if x not in (0x2a, 0x2b, 0x7b))
# replays of the known finding "nullable loop body: catastrophic backtracking" (DESIGN.md appendix A, item 9)
NESTED_CORPUS = ("(a+)*b",)        # KF-nested-loop: a loop inside a loop, body not nullable
CORPUS = [("(a*)*b", "aaaaaaaaaaaaaaaaaaaaaaaa\n"), ("(()?)*x", "ab\n"), ("(a+)*b", "a" * 40 + "\n")]
SHAPE_LINES = [[10], [97, 10], [98, 10], [65, 10], [233, 10], [32, 10]]      # Gen_Regex!Lines(1)


def shapes():
    """(patterns whose reference result is cheap to enumerate, patterns checked for size and safety only)"""
    out, sizeonly = [], []
    for k in (1, 2, 29, 30, 31, 32, 33, 34, 61, 62, 63, 64, 65, 66, 67, 70, 100, 127, 128, 129, 200):
        out.append("(a)" * k)
        sizeonly.append("(a?)" * k)
        out.append("(a)" * k + "|b")
    for k in (30, 31, 32, 33, 62, 63, 64, 65, 66, 130):
        out.append("(" * k + "a" + ")" * k)
    out += ["a{127}", "a{128}", "a{129}", "a{128,}", "a{127,128}", "(a{128}){2}b", "((a{16}){8})", "a{0}{5}", "a{128}{2}"]
    sizeonly += ["a{0,128}", "a{1,128}", "a?{128}", "(ab|c){64,128}", "(a|b){0,128}", "(a{0,128}){0,2}"]
    out += ["a{2147483647}", "a{2147483648}", "a{4294967297}", "a{99999999999}", "a{1,4294967297}", "a{0,2147483648}",
            "a{130,1}", "a{00000000000000000001}"]
    out += ["a|" * 300 + "b", "a" * 2000, "[" + "".join("%c-%c" % (c, c) for c in "abcdefghijklmnopqrstuvwxyz" * 8) + "]",
            "[[:alpha:][:digit:][:space:]" * 20 + "]"]
    sizeonly += ["(a|" * 60 + "b" + ")" * 60, "a*" * 100, "(a" * 40 + ")*" * 40]
    return out, sizeonly


LINES = ["\n", "a\n", "ab\n", "aab a\n", "éa漢 b\n", "((a))|{1,2}\n", "a" * 300 + "\n", "é" * 120 + "b\n",
         "a\U0001f600b\n", "\U00010000\U0010ffff a\n"]          # four-byte characters: offsets must fall on their boundaries


def upto(n):
    return sum(NS ** i for i in range(n + 1))


def main(ctx, args):
    rng = random.Random(ctx.seed)
    nex = 3 if ctx.quick else 4
    jobs = [dict(MODE="sym", LO=a, HI=b, LMAX=0) for a, b in split_range(0, upto(nex), NCPU * 2)]
    # longer strings are passed as lists of symbol indices (TLC integers are 32-bit)
    extra = [[rng.randint(1, NS) for _ in range(rng.randint(nex + 1, 8))] for _ in range(30000 if ctx.quick else 600000)]
    per = max(1, len(extra) // (NCPU * 2))
    for i in range(0, len(extra), per):
        f = ctx.path("gen", "sidx_%d.ndjson" % i)
        open(f, "w").write("".join(json.dumps(x) + "\n" for x in extra[i:i + per]))
        jobs.append(dict(MODE="symlist", IDXFILE=f, LMAX=0))
    # seeded random pattern strings that are valid UTF-8 go through the spec as well (code point lists)
    nrand = 4000 if ctx.quick else 100000
    rnd_valid, rnd_raw = [], []
    for i in range(nrand):
        n = rng.randint(1, 64)
        if i % 3 == 0:      # raw bytes without unbounded quantifiers (no spec verdict: keep clear of nullable loops)
            rnd_raw.append(bytes(rng.choice(RAWBYTES) for _ in range(n)))
        else:               # biased towards metacharacters
            txt = "".join(rng.choice("a(b)[c]^$|*+?{},12\\<>.-:é漢=") for _ in range(n))
            rnd_valid.append([ord(ch) for ch in txt])
    per = max(1, len(rnd_valid) // NCPU)
    for i in range(0, len(rnd_valid), per):
        f = ctx.path("gen", "cidx_%d.ndjson" % i)
        open(f, "w").write("".join(json.dumps(x) + "\n" for x in rnd_valid[i:i + per]))
        jobs.append(dict(MODE="cplist", IDXFILE=f, LMAX=0))
    # boundary shapes at the real constants (NGRPS = 64 marks, NREPS = 128): expected results come from the spec
    shp, shp_size = shapes()
    for k, (part, mode) in enumerate(((shp[0::2], "cplines"), (shp[1::2], "cplines"), (shp_size, "cplist"))):
        f = ctx.path("gen", "shapes%d.ndjson" % k)
        open(f, "w").write("".join(json.dumps([ord(ch) for ch in x]) + "\n" for x in part))
        jobs.append(dict(MODE=mode, IDXFILE=f, LMAX=1))
    tables = gen_tables(ctx, jobs)
    exe = ctx.probe("reprobe")
    st = dict(strings=0, accepted=0, rejected=0, flawed=0, matches=0, found=0, unfit=0, random=nrand, cut=0, eloop=0)
    reqs, meta = [], []
    lines = [[ord(ch) for ch in l] for l in LINES]
    allcases = []
    for job, path in tables:
        allcases += load_table(path)[1]
    for c in allcases:
        st["strings"] += 1
        if not c["p"]:
            continue
        if c["ok"] and not c["flaw"] and c["used"] > c["alloc"]:
            st["unfit"] += 1       # design-level: the estimate is too small for a pattern the parser accepts
        hp = enc(c["p"])
        if c["eloop"] or c.get("nest"):
            # an unbounded repetition of a body that can match the empty string, or of a body that holds another loop, makes the
            # matcher enumerate an astronomically large search space (known findings, kept visible by CORPUS below): compile only
            st["eloop"] += 1
            reqs.append("M 0 0 0 %d 1 %s -" % (NG, hp))
            meta.append((c, [], (0, 0, 0)))
            continue
        if c.get("res"):
            for li, ln in enumerate(SHAPE_LINES):
                for fl in ((0, 0, 0), (1, 1, 0)):
                    reqs.append("M %d %d %d %d 1 %s %s" % (fl[0], fl[1], fl[2], NG, hp, enc(ln)))
                    meta.append((dict(c, _li=li + 1), ln, fl))
        sel = lines[:3] + [lines[3 + (len(reqs) // 7) % (len(lines) - 3)]]
        for k, ln in enumerate(sel):
            fl = (k % 2, (k // 2) % 2, 1 if k == 3 else 0)
            reqs.append("%s %d %d %d %d 1 %s %s" % ("M" if k != 1 else "S", fl[0], fl[1], fl[2], NG, hp, enc(ln)))
            meta.append((c, ln, fl))
    # pattern sets with many members: group bookkeeping of rset.c around the mark limit
    for nm in (1, 2, 29, 30, 31, 32, 33, 61, 62, 63, 64, 65, 66, 90):
        for grp in (0, 1):
            pats = [("(%s)" if grp else "%s") % chr(97 + (j % 26)) for j in range(nm)]
            for ltxt in ("a\n", "zz%s\n" % chr(97 + ((nm - 1) % 26))):
                reqs.append("M 0 0 0 %d %d %s %s" % (NG, nm, " ".join(x.encode().hex() for x in pats), ltxt.encode().hex()))
                # leftmost position wins, then the first member that matches there; members whose own group
                # lies beyond the engine's 64 groups are outside the supported range: only safety is required
                pos = min(i for i, ch in enumerate(ltxt) if any(chr(97 + (j % 26)) == ch for j in range(nm)))
                exp_idx = min(j for j in range(nm) if chr(97 + (j % 26)) == ltxt[pos])
                if 2 + exp_idx * (2 if grp else 1) >= 64:
                    exp_idx = None
                meta.append(({"p": None, "raw": ("set of %d members%s" % (nm, " with groups" if grp else "")).encode().hex(),
                              "set_expect": exp_idx}, [ord(ch) for ch in ltxt], (0, 0, 0)))
    for i, b in enumerate(rnd_raw):
        ln = lines[i % len(lines)]
        for kind in "MS":
            reqs.append("%s %d %d %d %d 1 %s %s" % (kind, i % 2, (i // 2) % 2, (i // 4) % 2, NG, b.hex(), enc(ln)))
            meta.append(({"p": None, "raw": b.hex()}, ln, (i % 2, (i // 2) % 2, (i // 4) % 2)))
    # raw-byte patterns of repaired defects: a byte that looks like a lead byte before a newline, under case folding
    for b, ltxt in ((bytes.fromhex("c00a0a"), "a\n"), (bytes.fromhex("c00a0a2e1e99ff0f030e58ff"), "a\n"), (bytes.fromhex("e20a"), "\n\n")):
        for fl in ((1, 1, 0), (1, 0, 0), (0, 0, 0)):
            reqs.append("M %d %d %d %d 1 %s %s" % (fl[0], fl[1], fl[2], NG, b.hex(), ltxt.encode().hex()))
            meta.append(({"p": None, "raw": b.hex()}, [ord(ch) for ch in ltxt], fl))
    # truncated multi-byte sequences as patterns (alone, after and before a letter, under an operator) on lines that hold the whole
    # characters: a match may not begin or end inside a character (both matchers, all flag values)
    for hx in ("c3", "61c3", "c361", "e6", "e6bc", "61e6bc", "f09f", "f09f98", "c32a", "e6bc2a", "28c329", "5bc35d", "c3a9c3", "e6bca2e6"):
        for ltxt in ("\u00e9a\u6f22 b\n", "\u6f22\n", "a\U0001f600b\n", "\u00e9\u00e9\n", "a\u00e9\n"):
            for fl in ((0, 0, 0), (1, 0, 0), (0, 1, 1)):
                for kind in "MS":
                    reqs.append("%s %d %d %d %d 1 %s %s" % (kind, fl[0], fl[1], fl[2], NG, hx, ltxt.encode().hex()))
                    meta.append(({"p": None, "raw": hx}, [ord(ch) for ch in ltxt], fl))
    for ptxt, ltxt in CORPUS:
        reqs.append("M 0 0 0 %d 1 %s %s" % (NG, ptxt.encode().hex(), ltxt.encode().hex()))
        meta.append(({"p": [ord(ch) for ch in ptxt], "corpus": 1, "eloop": 0 if ptxt in NESTED_CORPUS else 1, "nest": 1 if ptxt in NESTED_CORPUS else 0,
                      "ok": 1, "flaw": "", "alloc": -1, "used": -1},
                     [ord(ch) for ch in ltxt], (0, 0, 0)))
    resps, crashes = run_probe(exe, reqs, args=["3"], skipkey=lambda r: r.split()[6])
    samples = []
    seen_flaw = set()
    for (c, line, fl), req, resp, cr in zip(meta, reqs, resps, crashes):
        ptxt = "".join(map(chr, c["p"])) if c["p"] is not None else repr(bytes.fromhex(c["raw"]))
        rep = {"pattern_text": ptxt, "pattern_hex": req.split()[6], "line": "".join(map(chr, line)),
               "flags_ic_nb_ne": fl, "request": req, "response": resp, "spec": {k: c.get(k) for k in ("ok", "flaw", "alloc", "used", "clean")}}
        flaw = c.get("flaw") or ""
        if cr is not None:
            if cr.get("skipped"):
                continue
            ctx.violation("pattern %s: memory error / crash in the matcher: %s" % (ptxt, summarize(cr["stderr"])),
                          dict(rep, crash=cr), {"kind": "crash", "flaw": flaw, "where": where(cr["stderr"])})
            continue
        st["matches"] += 1
        r = parse_resp(resp, line)
        if r["kind"] == "T":
            ctx.violation("pattern %s: no answer within 2 s (compilation or matching does not terminate)" % ptxt, rep,
                          {"kind": "hang", "flaw": flaw, "eloop": c.get("eloop", 0), "nest": c.get("nest", 0)})
            continue
        if c["p"] is not None and req[0] == "M":
            # binding of the parser / estimate transcription, and clean rejection of malformed input
            if flaw in ("overrun", "inverted", "hang"):
                # the spec predicts that regex.c misbehaves here; whatever it answers, it must not be a memory error,
                # and the reference is "rejected"
                st["flawed"] += 1
                if r["kind"] != "E":
                    ctx.violation("pattern %s (%s): not rejected although its compilation reads or writes out of bounds" %
                                  (ptxt, flaw), rep, {"kind": "accepts-" + flaw})
                    continue
            elif flaw == "unclosed" and max(c["p"]) > 127:
                pass    # regex.c skips one *byte* after an unclosed '{': not expressible over code points (neither acceptance nor sizes)
            elif (r["kind"] == "r") != bool(c["ok"]):
                ctx.violation("pattern %s: compiled=%s but the reference parser says ok=%s" % (ptxt, r["kind"] == "r", c["ok"]),
                              rep, {"kind": "accept-mismatch"})
                continue
            elif r["kind"] == "r" and not c.get("corpus") and (r["alloc"], r["used"]) != (c["alloc"], c["used"]):
                ctx.violation("pattern %s: program reserved/used %d/%d, the spec's CountEst/EmitLen give %d/%d" %
                              (ptxt, r["alloc"], r["used"], c["alloc"], c["used"]), rep, {"kind": "size-binding"})
        if c.get("res") and r["kind"] == "r" and r["cuts"] == 0:
            # shapes: exact expected result from the spec for this (line, flags)
            want = [x for x in c["res"] if x[0] == c.get("_li") and flags_of(x[1]) == tuple(fl)]
            got = [] if r["ret"] < 0 else [r["ret"]] + r["offs"]
            if want and want[0][2] != got:
                ctx.violation("pattern %s on %r: expected %s, matcher gave %s" % (ptxt[:80], rep["line"], want[0][2], got),
                              rep, {"kind": "shape-mismatch"})
        if c.get("set_expect") is not None and (r["kind"] != "r" or r["ret"] != c["set_expect"]):
            ctx.violation("%s on %r: expected member %d, got %s" % (ptxt, rep["line"], c["set_expect"], resp), rep,
                          {"kind": "set-index"})
        if r["kind"] == "E":
            st["rejected"] += 1
            continue
        st["accepted"] += 1
        if req[0] == "M" and r["used"] > r["alloc"]:
            ctx.violation("pattern %s: compiled program (%d instructions) exceeds the memory reserved for it (%d)" %
                          (ptxt, r["used"], r["alloc"]), rep, {"kind": "overflow", "flaw": flaw})
        if r["cuts"]:
            st["cut"] += 1
        if r["ret"] >= 0:
            st["found"] += 1
            so, eo = r["raw"][0], r["raw"][1]
            nbytes = len("".join(map(chr, line)).encode())
            if not (0 <= so <= eo <= nbytes) or r["bad"]:
                ctx.violation("pattern %s on %r: offsets %d..%d out of bounds or inside a character" %
                              (ptxt, rep["line"][:40], so, eo), rep, {"kind": "bounds"})
            if len(samples) < 4 and len(ptxt) > 5:
                samples.append({"pattern": ptxt, "line": rep["line"][:30], "offsets": [so, eo], "reserved": r["alloc"], "used": r["used"]})
    import rawre
    st.update(rawre.raw_check(ctx, 4 if ctx.quick else 5))
    cov = {"evaluations": st["matches"], "distinct_nontrivial": st["found"],
           "rule": "pattern strings = every string of <= 3 (4) symbols over {a ( ) [ ] ^ $ | * + ? { } , 1 2 \\ < . - :}, a seeded "
                   "sample of such strings up to 8 symbols, and seeded random byte strings (1..255, <= 64 bytes); each compiled "
                   "through rset_make and rstr_make and matched against 4 of 8 lines (empty, ASCII, multi-byte, 300 characters); "
                   "non-trivial = compiled and matched somewhere; in addition every string of <= 4 (5) symbols over {a \\ { } 1 , ( ) [ ] * | 2 <} is handed to regcomp() itself, unwrapped, in a heap copy of its exact size (rawre.c): it must refuse or compile within 2 s without a sanitizer report",
           "samples": samples, "stats": st, "exhaustive": True,
           "explanation": "accept/reject and reserved/used sizes are compared with ParseRe/CountEst/EmitLen of Regex.tla for "
                          "every symbol string; 'unfit' counts accepted patterns whose estimate is below the emitted size in the spec"}
    return ctx.finish("model_checking", cov, ["out-of-bounds reads that ASan does not flag are invisible",
                                             "NUL bytes cannot occur in a pattern"])


def summarize(stderr):
    for ln in stderr.splitlines():
        if "SUMMARY" in ln or "runtime error" in ln:
            return ln.strip()[:300]
    return stderr[-300:]


def where(stderr):
    import re
    m = re.search(r"SUMMARY: \w+: ([\w-]+) .*?/([\w.]+):\d+:\d+ in (\w+)", stderr)
    if m:
        return m.group(1) + "@" + m.group(2) + ":" + m.group(3)
    m = re.search(r"([\w.]+\.c):\d+:\d+: runtime error: ([\w -]+)", stderr)
    return (m.group(2).strip() + "@" + m.group(1)) if m else "?"


if __name__ == "__main__":
    run_main(main)
