#!/usr/bin/env python3
"""C04 - undo and redo restore exact earlier texts, one step per command.

(1) TLC: spec/MC_Lbuf.tla, all call sequences of the lbuf interface in a small
    scope: UndoExact, RedoExact, EndsFail, GhostMatches, AtBoundary, DirtySound.
(2) M3: the complete labelled state graph of a (smaller) scope is replayed,
    transition by transition, through the real lbuf_* functions (lbufwalk.c).
(3) M1: editor-level undo/redo ghost stacks on traces of ex and vi sessions
    (harness/editor.py), including the repository's own test scripts.
"""
import json, os, subprocess, sys
sys.path.insert(0, os.path.dirname(os.path.dirname(os.path.abspath(__file__))))
from common import *

SCOPES = {
    # tier: (model-checking scope, graph-walk scope)
    "quick":    (dict(MaxLen=2, MaxIns=2, MaxHist=3, MaxSeq=3, MaxId=3),
                 dict(MaxLen=2, MaxIns=1, MaxHist=3, MaxSeq=3, MaxId=3)),
    # (the first thorough scope tried - MaxSeq=4, MaxId=4 for the model and MaxHist=4 for the walk - did not finish in 55 min)
    "thorough": (dict(MaxLen=3, MaxIns=2, MaxHist=3, MaxSeq=3, MaxId=4),
                 dict(MaxLen=2, MaxIns=2, MaxHist=3, MaxSeq=4, MaxId=3)),
}


def cfg(ctx, name, consts, dump):
    p = ctx.path("cfg", name)
    with open(p, "w") as f:
        f.write("SPECIFICATION Spec\nCONSTANTS\n")
        for k, v in consts.items():
            f.write("  %s = %s\n" % (k, v))
        f.write("  Dump = %s\n" % ("TRUE" if dump else "FALSE"))
        f.write("INVARIANT DumpInv\n" if dump else "INVARIANT Inv\nPROPERTY ActionProps\n")
        f.write("VIEW View\nCHECK_DEADLOCK FALSE\n")
    return p


def walk(ctx, scope):
    """dump the state graph with TLC and replay it through the real line buffer"""
    out = ctx.path("dump.txt")
    r = tlc(ctx, "MC_Lbuf", cfg(ctx, "dump.cfg", scope, True), out=out, timeout=3000, heap="8g", workers=8)
    if not r["ok"]:
        raise Infra("graph dump failed: %s\n%s" % (r.get("error"), r["out"][-2000:]))
    walker = ctx.probe("lbufwalk")
    inp = ctx.path("walk.in")
    samples = []
    nstates = 0
    with open(out) as f, open(inp, "w") as g:
        for ln in f:
            if not ln.startswith('<<"G", '):
                continue
            rec = json.loads(json.loads(ln.rstrip("\n")[7:-2]))
            nstates += 1
            w = ["S", str(len(rec["p"]))]
            for op in rec["p"]:
                w.append(str(len(op)))
                w += [str(x) for x in op]
            w.append(str(len(rec["s"])))
            for op, exp in rec["s"]:
                w.append(str(len(op)))
                w += [str(x) for x in op]
                w.append(str(len(exp[0])))
                w += [str(x) for x in exp[0]]
                w += [str(exp[1]), str(exp[2])]
            g.write(" ".join(w) + "\n")
            if len(samples) < 3 and len(rec["p"]) >= 5:
                samples.append({"path": rec["p"], "op_and_expected": rec["s"][0]})
    os.remove(out)
    env = dict(os.environ)
    env.update(ASAN_ENV)
    env.pop("NEATVI_VERIF_TRACE", None)
    total = 0
    nbad = 0
    # the same graph under three instantiations of "line identity -> text" (see lbufwalk.c)
    for rendering in (0, 1, 2):
        with open(inp) as f:
            p = subprocess.run(["timeout", "3000", walker, str(rendering)], stdin=f, capture_output=True, text=True,
                               env=env, cwd=ctx.scratch)
        done = None
        bad = []
        for ln in p.stdout.splitlines():
            if ln.startswith("{"):
                o = json.loads(ln)
                if o.get("done"):
                    done = o
                elif o.get("mismatch"):
                    bad.append(o)
        if done is None:
            # the walker died: crash or sanitizer report inside the line buffer
            ctx.violation("lbuf walker aborted (rc=%d, rendering %d): %s" % (p.returncode, rendering, p.stderr[-1500:]),
                          {"kind": "lbufwalk-abort", "scope": scope, "rendering": rendering, "stderr": p.stderr[-4000:]},
                          {"kind": "walk-abort"})
            continue
        if done["states"] != nstates:
            raise Infra("walker consumed %d of %d states" % (done["states"], nstates))
        total += done["transitions"]
        nbad += done["mismatch"]
        for b in bad:
            ctx.violation("line buffer disagrees with Lbuf.tla after calls %s then %s (rendering %d): expected %s got %s"
                          % (b["path"], b["op"], rendering, b["exp"], b["got"]),
                          {"kind": "lbufwalk", "scope": scope, "rendering": rendering, **b},
                          {"kind": "walk", "op": b["op"][0], "rendering": rendering})
    return dict(states=nstates, transitions=total, mismatches=nbad, samples=samples, dump=r)


def _unused():
    done = {}
    return dict(states=nstates, transitions=done["transitions"], mismatches=done["mismatch"],
                samples=samples, dump=r)


def long_histories(ctx):
    """the undo log far beyond the depth TLC explores: one command of 1500 sub-edits, and 1100 commands undone one by one.
    The expectation is the property itself: every undo gives back the text before the command, every redo the text after it."""
    import subprocess
    from editor import run_vi
    n = 1500
    orig = ["line %d" % i for i in range(n)]
    s1 = "a\n" + "\n".join(orig) + "\n.\nw! o0\n%s/^/x/\nw! o1\nu\nw! o2\nredo\nw! o3\nu\nw! o4\nq!\n"
    want1 = {"o0": orig, "o1": ["x" + l for l in orig], "o2": orig, "o3": ["x" + l for l in orig], "o4": orig}
    m = 1100
    s2 = "a\nr1\nr2\nr3\nr4\nr5\n.\n1,5s/^/y/\n" + "".join("%ds/$/%s/\n" % (1 + i % 5, "abcdefghij"[i % 10]) for i in range(m)) + \
         "w! p0\n" + "u\n" * m + "w! p1\n" + "u\nw! p2\n" + "redo\n" * (m + 1) + "w! p3\nq!\n"
    rows = ["y" + r for r in ("r1", "r2", "r3", "r4", "r5")]
    fin = list(rows)
    for i in range(m):
        fin[i % 5] += "abcdefghij"[i % 10]
    want2 = {"p0": fin, "p1": rows, "p2": ["r1", "r2", "r3", "r4", "r5"], "p3": fin}
    bad = 0
    for name, script, want in (("one command of 1500 sub-edits", s1, want1), ("1100 commands undone one by one", s2, want2)):
        recs, rc, err, to, work = run_vi(ctx, ["-s", "-e"], script.encode(), timeout=120, trace=False)
        for f, lines in want.items():
            p = os.path.join(work, f)
            have = open(p).read().split("\n")[:-1] if os.path.exists(p) else None
            if have != lines or rc != 0:
                bad += 1
                k = next((i for i, (a, b) in enumerate(zip(have or [], lines)) if a != b), -1)
                ctx.violation("long undo history (%s): the text written as %s differs from the text the undo / redo must restore "
                              "(first differing line %d: %r instead of %r; rc %s)" %
                              (name, f, k + 1, (have or [None] * (k + 1))[k] if have is not None and k >= 0 else have and len(have), lines[k] if k >= 0 else len(lines), rc),
                              {"scenario": name, "file": f, "first_difference_line": k + 1, "script_head": script[:300]}, {"kind": "long-history", "file": f})
                break
        shutil.rmtree(work, True)
    return {"long_history_scenarios": 2, "long_history_bad": bad}


def main(ctx, args):
    mc_scope, walk_scope = SCOPES[ctx.tier]
    mc = tlc_model(ctx, "MC_Lbuf", cfg(ctx, "mc.cfg", mc_scope, False), timeout=3000, heap="16g")
    w = walk(ctx, walk_scope)
    ed = {}
    try:
        import editor
        ed = editor.undo_traces(ctx)
    except ImportError:
        ctx.notes.append("editor-level undo traces not built yet")
    ed.update(long_histories(ctx))
    cov = {
        "long_histories": {k: ed[k] for k in ("long_history_scenarios", "long_history_bad")},
        "states": mc["distinct"], "transitions": mc["generated"],
        "traces_validated_against_impl": w["transitions"] + ed.get("traces", 0),
        "samples": w["samples"] + ed.get("samples", []),
        "model_scope": mc_scope, "model_depth": mc["depth"],
        "walk_scope": walk_scope, "walk_states": w["states"], "walk_transitions": w["transitions"],
        "walk_mismatches": w["mismatches"],
        "evaluations": w["transitions"] + ed.get("commands", 0),
        "distinct_nontrivial": w["states"],
        "rule": "one evaluation = one (state, call) transition of MC_Lbuf's state graph executed on a fresh "
                "struct lbuf through lbuf_edit/undo/redo/modified/saved; distinct_nontrivial = distinct model "
                "states whose whole successor table was replayed",
        "exhaustive": True,
        "editor_level": ed,
    }
    return ctx.finish("model_checking", cov,
                      ["TLC's exploration of MC_Lbuf is complete for the stated constants",
                       "lbuf_saved() is exercised on the current buffer, as every caller in ex.c does",
                       "marks after undo are not constrained"])


if __name__ == "__main__":
    run_main(main)
