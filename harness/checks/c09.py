#!/usr/bin/env python3
"""C09 - repeat, macro and count: '.', '@r' and N-fold equal retyping (see vidrive.repeat_check)."""
import os, sys
sys.path.insert(0, os.path.dirname(os.path.dirname(os.path.abspath(__file__))))
from common import *
import vidrive


def main(ctx, args):
    n, steps = (240, 30) if ctx.quick else (4000, 45)
    return vidrive.repeat_check(ctx, n, steps)


if __name__ == "__main__":
    run_main(main)
