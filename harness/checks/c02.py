#!/usr/bin/env python3
"""C02 - buffer table and file commands: MC_Bufs is model-checked (DirtySound, NoLoss, TableOK, refusals) and
seeded Gen_Bufs behaviours (open / switch / edit / undo / write whole, partial, foreign / reload / delete / quit / external
file events, up to 19 paths for the 16 slots) are typed in lock-step into the traced `vi -s -e'; after every command the
recorded table (ids, paths, text, modified flag, undo position, current line), status and message class are compared with
Bufs!Step, and the files on disk at the end."""
import os, sys
sys.path.insert(0, os.path.dirname(os.path.dirname(os.path.abspath(__file__))))
from common import *
import bufdrive


def main(ctx, args):
    n, steps, mc = (240, 40, (3, 6)) if ctx.quick else (4000, 60, (3, 7))      # (3, 6): the scope at which TLC found the :xa defect
    return bufdrive.bufs_check(ctx, "C02", n, steps, mc,
        "scripts = seeded command sequences built from the model state; one evaluation = one command compared; non-trivial = "
        "commands attributed to this property (switch/open for C20; quit, refusals and modified-flag soundness for C02)",
        ["text equality of non-current buffers is judged by length and a hash of the recorded text",
         "mtimes are set by the driver 1000 s apart so that newer/older never races with the clock"])


if __name__ == "__main__":
    run_main(main)
