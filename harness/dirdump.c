/* dumps the direction marks and contexts of conf.h (through conf.c's accessors) for harness/tables.py */
#include <stdio.h>
#include "vi.h"

static void hex(char *s)
{
	for (; *s; s++)
		printf("%02x", (unsigned char) *s);
	printf("\n");
}

int main(void)
{
	char *pat;
	int ctx, dir, grp, i;
	for (i = 0; !conf_dirmark(i, &pat, &ctx, &dir, &grp); i++) {
		printf("M %d %d %d ", ctx, dir, grp);
		hex(pat);
	}
	for (i = 0; !conf_dircontext(i, &pat, &dir); i++) {
		printf("C %d ", dir);
		hex(pat);
	}
	return 0;
}
