/*
 * M2 probe for the UTF-8 helpers of uc.c (C16) and the width classes (C17).
 *   ucprobe cps     stdin: code points, one per line -> NDJSON records
 *   ucprobe str     stdin: hex strings, one per line -> one JSON record per line
 */
#include <stdio.h>
#include <stdlib.h>
#include <string.h>
#include "vi.h"

static int enc(int c, char *d)
{
	int l = 0, n;
	if (c > 0xffff) {
		*d++ = 0xf0 | (c >> 18);
		l = 3;
	} else if (c > 0x7ff) {
		*d++ = 0xe0 | (c >> 12);
		l = 2;
	} else if (c > 0x7f) {
		*d++ = 0xc0 | (c >> 6);
		l = 1;
	} else {
		*d++ = c;
	}
	n = l + 1;
	while (l--)
		*d++ = 0x80 | ((c >> (l * 6)) & 0x3f);
	*d = '\0';
	return n;
}

static void cps(void)
{
	char *dotpat = ".";
	struct rset *dot = rset_make(1, &dotpat, 0);
	int cp;
	while (scanf("%d", &cp) == 1) {
		char ch[8], line[16], pat[16], *pp = pat;
		int grps[4], n, i, dotlen = -1, brk = 1;
		n = enc(cp, ch);
		sprintf(line, "%s\n", ch);
		if (cp != '\n' && rset_find(dot, line, 1, grps, 0) == 0)
			dotlen = grps[1] - grps[0];
		if (cp == '\n')
			dotlen = 1;	/* "." never matches the line terminator; not part of the domain */
		if (cp > 127 || (cp >= '0' && cp <= '9') || (cp >= 'a' && cp <= 'z')) {
			struct rset *rs;
			sprintf(pat, "[%s]", ch);
			rs = rset_make(1, &pp, 0);
			brk = rs && rset_find(rs, line, 1, grps, 0) == 0 && grps[0] == 0 && grps[1] == n;
			if (rs)
				rset_free(rs);
			sprintf(pat, "[^%s]", ch);
			rs = rset_make(1, &pp, 0);
			brk = brk && rs && rset_find(rs, line, 1, grps, 0) < 0;
			if (rs)
				rset_free(rs);
		}
		printf("{\"cp\":%d,\"bytes\":[", cp);
		for (i = 0; i < n; i++)
			printf("%s%d", i ? "," : "", (unsigned char) ch[i]);
		printf("],\"len\":%d,\"code\":%d,\"dot\":%d,\"brk\":%d,\"wid\":%d,\"bell\":%d,\"comb\":%d,\"kind\":%d}\n",
			uc_len(ch), uc_code(ch), dotlen, brk, uc_wid(ch), !!uc_isbell(ch), !!uc_iscomb(ch), uc_kind(ch));
	}
}

static void arr(char *name, int *v, int n, int first)
{
	int i;
	printf("%s\"%s\":[", first ? "" : ",", name);
	for (i = 0; i < n; i++)
		printf("%s%d", i ? "," : "", v[i]);
	printf("]");
}

static void strs(void)
{
	static char hex[1 << 16];
	while (scanf("%65535s", hex) == 1) {
		int nb = hex[0] == '-' ? 0 : strlen(hex) / 2;
		char *s = malloc(nb + 1);
		int v[4096];
		int i, n, a, z, cnt;
		char **chop;
		for (i = 0; i < nb; i++) {
			unsigned x;
			sscanf(hex + 2 * i, "%2x", &x);
			s[i] = x;
		}
		s[nb] = '\0';
		n = uc_slen(s);
		printf("{\"slen\":%d", n);
		for (i = 0; i < n; i++)
			v[i] = uc_len(uc_chr(s, i));
		arr("len", v, n, 0);
		for (i = 0; i < n; i++)
			v[i] = uc_code(uc_chr(s, i));
		arr("code", v, n, 0);
		for (i = -1; i <= n + 1; i++) {
			char *r = uc_chr(s, i);
			/* an empty result is the end of s, wherever the empty string lives */
			v[i + 1] = !*r ? nb : (r >= s && r <= s + nb ? r - s : -1);
		}
		arr("chr", v, n + 3, 0);
		for (i = 0; i <= nb; i++)
			v[i] = uc_off(s, i);
		arr("off", v, nb + 1, 0);
		for (i = 0; i <= n; i++)
			v[i] = uc_next(uc_chr(s, i)) - s;
		arr("next", v, n + 1, 0);
		for (i = 0; i <= n; i++)
			v[i] = uc_prev(s, uc_chr(s, i)) - s;
		arr("prev", v, n + 1, 0);
		for (i = 0; i < nb; i++)
			v[i] = uc_beg(s, s + i) - s;
		arr("beg", v, nb, 0);
		for (i = 0; i < nb; i++)
			v[i] = uc_end(s + i) - s;
		arr("end", v, nb, 0);
		chop = uc_chop(s, &cnt);
		for (i = 0; i <= cnt; i++)
			v[i] = chop[i] - s;
		arr("chop", v, cnt + 1, 0);
		free(chop);
		printf(",\"sub\":[");
		for (a = 0; a <= n; a++) {
			printf("%s[", a ? "," : "");
			for (z = 0; z <= n; z++) {
				printf("%s[", z ? "," : "");
				{	/* also for an inverted range: nothing lies between */
					char *r = uc_sub(s, a, z);
					for (i = 0; r[i]; i++)
						printf("%s%d", i ? "," : "", (unsigned char) r[i]);
					free(r);
				}
				printf("]");
			}
			printf("]");
		}
		printf("],\"subend\":[");	/* end = -1: up to the end of the string */
		for (a = 0; a <= n; a++) {
			char *r = uc_sub(s, a, -1);
			printf("%s[", a ? "," : "");
			for (i = 0; r[i]; i++)
				printf("%s%d", i ? "," : "", (unsigned char) r[i]);
			free(r);
			printf("]");
		}
		printf("]}\n");
		fflush(stdout);
		free(s);
	}
}

int main(int argc, char *argv[])
{
	dir_init();
	syn_init();
	if (argc > 1 && !strcmp(argv[1], "cps"))
		cps();
	else
		strs();
	return 0;
}
