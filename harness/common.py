"""Shared machinery of the checks: scratch space, building /repo's working tree
with the hooks, running TLC, verdicts, known findings and evidence files."""
import atexit, glob, hashlib, json, os, re, shutil, subprocess, sys, tempfile, time

VERIF = os.path.dirname(os.path.dirname(os.path.abspath(__file__)))
REPO = os.environ.get("VERIF_REPO", "/repo")
SPEC = os.path.join(VERIF, "spec")
HARNESS = os.path.join(VERIF, "harness")
NCPU = min(16, os.cpu_count() or 4)
JAR = "/opt/veriftools/tla/tla2tools.jar:/opt/veriftools/tla/CommunityModules-deps.jar"
# signed arithmetic wraps (-fwrapv): an overflowing count is not a memory error; what a wrapped value then does to memory is
# what ASan and the remaining UBSan checks (bounds, null, pointer-overflow, shifts, division) decide
SAN = "-fsanitize=address,undefined -fno-sanitize=nonnull-attribute -fwrapv -fno-sanitize-recover=undefined"
CFLAGS = "-DNEATVI_VERIF -g -O1 -fno-omit-frame-pointer " + SAN
ASAN_ENV = {"ASAN_OPTIONS": "detect_leaks=0:abort_on_error=0:exitcode=86:allocator_may_return_null=1",
            "UBSAN_OPTIONS": "print_stacktrace=1:halt_on_error=1:exitcode=87"}


class Infra(Exception):
    """infrastructure failure (exit 2), never reported as a violation"""


class Ctx:
    def __init__(self, pid, tier, seed, wipe=True):
        self.pid, self.tier, self.seed = pid, tier, seed
        self.t0 = time.time()
        self.scratch = tempfile.mkdtemp(prefix="nvverif-%s-" % pid)
        atexit.register(shutil.rmtree, self.scratch, True)
        self.violations = []     # dicts: property, what, replay, signature
        self.known_hits = []
        self.notes = []
        self.build_dir = None
        for old in glob.glob(os.path.join(VERIF, "replays", pid + "-*.json")) if wipe else []:
            os.remove(old)          # replay files of earlier runs of this check
        self.known = load_known()
        self.quick = tier == "quick"

    def path(self, *p):
        d = os.path.join(self.scratch, *p)
        os.makedirs(os.path.dirname(d), exist_ok=True)
        return d

    # ---- building -------------------------------------------------------
    def build(self):
        """copy /repo's working tree and build vi + objects with hooks, ASan and UBSan"""
        if self.build_dir:
            return self.build_dir
        d = self.path("build", "x")[:-2]
        for f in os.listdir(REPO):
            if f.endswith((".c", ".h")) or f == "Makefile":
                shutil.copy(os.path.join(REPO, f), d)
        r = subprocess.run(["make", "-j%d" % NCPU, "CC=clang", "CFLAGS=" + CFLAGS,
                            "LDFLAGS=" + SAN, "vi"], cwd=d, capture_output=True, text=True)
        if r.returncode != 0 or not os.path.exists(os.path.join(d, "vi")):
            raise Infra("build of /repo working tree failed:\n" + r.stdout[-2000:] + r.stderr[-4000:])
        # vi.c once more with main renamed, for probes linked against the objects
        r = subprocess.run("clang -c %s -Dmain=neatvi_main vi.c -o vi_lib.o" % CFLAGS,
                           shell=True, cwd=d, capture_output=True, text=True)
        if r.returncode != 0:
            raise Infra("vi_lib.o: " + r.stderr[-2000:])
        self.build_dir = d
        return d

    def probe(self, name):
        """compile harness/<name>.c against the repository's objects"""
        d = self.build()
        out = os.path.join(d, name)
        objs = [o for o in glob.glob(os.path.join(d, "*.o"))
                if os.path.basename(o) not in ("vi.o", "stag.o")]
        cmd = ["clang"] + CFLAGS.split() + ["-I", d, os.path.join(HARNESS, name + ".c")] + objs + ["-o", out]
        r = subprocess.run(cmd, capture_output=True, text=True)
        if r.returncode != 0:
            raise Infra("probe %s: %s" % (name, r.stderr[-3000:]))
        return out

    # ---- verdicts -------------------------------------------------------
    def violation(self, what, replay_obj, signature=None, prop=None):
        """record a violation unless it matches a known finding"""
        prop = prop or self.pid
        sig = dict(signature or {})
        for k in self.known:
            if k.get("status") == "known" and k["property"] == prop and \
                    all(sig.get(a) == b for a, b in k.get("match", {}).items()):
                if k["id"] not in [h["id"] for h in self.known_hits]:
                    self.known_hits.append(k)
                return False
        self.nviol = getattr(self, "nviol", 0) + 1
        skey = prop + json.dumps(sig, sort_keys=True, default=str)
        self.per_sig = getattr(self, "per_sig", {})
        self.per_sig[skey] = self.per_sig.get(skey, 0) + 1
        if self.per_sig[skey] > 3 or len(self.violations) >= 60:
            return True         # counted, not written: at most 3 replay files per signature
        h = hashlib.sha1(json.dumps(replay_obj, sort_keys=True, default=str).encode()).hexdigest()[:12]
        rp = os.path.join(VERIF, "replays", "%s-%s.json" % (prop, h))
        os.makedirs(os.path.dirname(rp), exist_ok=True)
        with open(rp, "w") as f:
            json.dump({"property": prop, "what": what, "signature": sig, "tier": self.tier,
                       "seed": self.seed, "replay": replay_obj}, f, indent=1, default=str)
        self.violations.append({"property": prop, "what": what, "replay": rp, "signature": sig})
        return True

    def finish(self, level, coverage, assumptions):
        for k in self.known_hits:
            print("KNOWN-FINDING: property=%s %s" % (k["property"], k["what"]))
        for v in self.violations:
            print("VIOLATION property=%s replay=%s" % (v["property"], v["replay"]))
            print("  " + v["what"][:600])
        ev = {"property_id": self.pid, "tier": self.tier, "seed": self.seed, "level": level,
              "coverage": coverage, "assumptions": assumptions,
              "wall_s": round(time.time() - self.t0, 1), "violations": getattr(self, "nviol", 0),
              "violation_signatures": getattr(self, "per_sig", {}),
              "known_findings_hit": [k["id"] for k in self.known_hits], "notes": self.notes}
        # a run against another tree (VERIF_REPO: seeded changes on a scratch copy) says nothing about /repo: its evidence
        # goes next to the replays instead of replacing the evidence of the registered check
        evdir = os.path.join(VERIF, "evidence") if "VERIF_REPO" not in os.environ else os.path.join(VERIF, "replays", "evidence-other-tree")
        os.makedirs(evdir, exist_ok=True)
        with open(os.path.join(evdir, self.pid + ".json"), "w") as f:
            json.dump(ev, f, indent=1, default=str)
        print("%s %s: %s in %.1fs" % (self.pid, self.tier, "VIOLATED" if self.violations else "ok",
                                       time.time() - self.t0))
        return 1 if self.violations else 0


def load_known():
    p = os.path.join(VERIF, "known_findings.jsonl")
    out = []
    if os.path.exists(p):
        for ln in open(p):
            ln = ln.strip()
            if ln and not ln.startswith("#"):
                out.append(json.loads(ln))
    return out


# ---- TLC ---------------------------------------------------------------
def tlc(ctx, module, cfg=None, env=None, workers=NCPU, timeout=900, heap="4g", simulate=None,
        extra=(), out=None, view_stdout=False):
    """run TLC on spec/<module>.tla; returns dict(rc, out, generated, distinct, depth, ok, error)"""
    meta = tempfile.mkdtemp(prefix="tlc-", dir=ctx.scratch)
    gc = ["-XX:+UseSerialGC", "-Xms256m"] if workers == 1 else ["-XX:+UseParallelGC", "-XX:ParallelGCThreads=%d" % max(2, min(8, workers))]
    lib = (env or {}).get("VERIF_TLA_LIB") or os.path.join(SPEC, "gen")
    cmd = ["timeout", str(timeout), "java"] + gc + ["-DTLA-Library=" + lib, "-Djava.io.tmpdir=" + meta, "-Xmx" + heap, "-Xss64m",
           "-cp", JAR, "tlc2.TLC", "-workers", str(workers), "-metadir", meta, "-noGenerateSpecTE"]
    if cfg:
        cmd += ["-config", cfg]
    if simulate:
        cmd += ["-simulate", simulate]
    cmd += list(extra) + [module + ".tla"]
    e = dict(os.environ)
    e.update(env or {})
    t0 = time.time()
    if out:
        with open(out, "w") as f:
            r = subprocess.run(cmd, cwd=SPEC, env=e, stdout=f, stderr=subprocess.STDOUT, text=True)
        text = tail(out, 200000)
    else:
        r = subprocess.run(cmd, cwd=SPEC, env=e, capture_output=True, text=True)
        text = r.stdout + r.stderr
    shutil.rmtree(meta, True)
    res = {"rc": r.returncode, "out": text, "wall": time.time() - t0, "generated": 0, "distinct": 0, "depth": 0}
    m = re.findall(r"(\d+) states generated, (\d+) distinct states found", text)
    if m:
        res["generated"], res["distinct"] = int(m[-1][0]), int(m[-1][1])
    m = re.search(r"depth of the complete state graph search is (\d+)", text)
    if m:
        res["depth"] = int(m.group(1))
    res["ok"] = r.returncode == 0 and "Model checking completed. No error has been found" in text
    if r.returncode == 124:
        res["error"] = "timeout"
    elif not res["ok"]:
        m = re.search(r"Error: (.*)", text)
        res["error"] = m.group(1) if m else "rc=%d" % r.returncode
    return res


def tlc_model(ctx, module, cfg, timeout=900, heap="8g", workers=NCPU, env=None):
    """model-check; a failure of the model itself is an infrastructure error unless the caller handles it"""
    r = tlc(ctx, module, cfg, timeout=timeout, heap=heap, workers=workers, env=env)
    if not r["ok"]:
        raise Infra("TLC %s/%s: %s\n%s" % (module, cfg, r.get("error"), r["out"][-3000:]))
    return r


def tlc_printed(text, tag):
    """values printed by PrintT(<<tag, ToJson(v)>>) -> list of decoded JSON values"""
    out = []
    pre = '<<"%s", ' % tag
    for ln in text.splitlines() if isinstance(text, str) else text:
        if ln.startswith(pre):
            body = ln.rstrip("\n")[len(pre):-2]
            out.append(json.loads(json.loads(body)))
    return out


def tail(path, n):
    with open(path, "rb") as f:
        f.seek(0, 2)
        sz = f.tell()
        f.seek(max(0, sz - n))
        return f.read().decode("utf-8", "replace")


def hexs(b):
    return b.hex() if isinstance(b, (bytes, bytearray)) else b.encode().hex()


def unhex(h):
    return bytes.fromhex(h) if h is not None else None


def generic_replay(ctx, a):
    """replay files of the behaviour checks carry the typed history and the expected state of the failing step: type the
    history again and compare.  Returns None when the file is of another kind (the check then runs as a whole)."""
    r = a.replay_obj
    if not (isinstance(r, dict) and "history" in r and "expected" in r and ("typed" in r or "keys" in r)):
        return None
    if "typed" in r and isinstance(r.get("expected"), dict) and "out" in r["expected"]:       # ex scripts (editor.py)
        import editor
        steps = [{"typed": [ord(c) for c in h], "exp": None, "kinds": []} for h in r["history"]]
        steps[-1]["exp"] = r["expected"]
        for s_ in steps[:-1]:
            s_["exp"] = "skip"
        res = editor.replay_script(ctx, {"seed": r.get("seed"), "profile": r.get("profile"), "steps": steps})
    elif "keys" in r and isinstance(r.get("expected"), dict) and "xcol" in r["expected"]:    # vi scripts (vidrive.py)
        import vidrive
        res = vidrive.replay_script(ctx, r)
    else:
        return None
    print(json.dumps(res, default=str)[:1500])
    if res.get("field"):
        print("VIOLATION property=%s replay=%s" % (a.pid, os.path.abspath(a.replay)))
        return 1
    return 0


def run_main(fn):
    """entry point used by bin/check"""
    import argparse
    ap = argparse.ArgumentParser()
    ap.add_argument("pid")
    ap.add_argument("--tier", default=os.environ.get("VERIF_TIER", "quick"))
    ap.add_argument("--replay")
    a = ap.parse_args()
    seed = int(os.environ.get("VERIF_SEED", "1"))
    a.replay_obj = None
    if a.replay:
        a.replay_obj = json.load(open(a.replay))
        a.replay_obj = a.replay_obj.get("replay", a.replay_obj)
    ctx = Ctx(a.pid, a.tier, seed, wipe=not a.replay)
    try:
        rc = generic_replay(ctx, a) if a.replay_obj else None
        if rc is None:
            rc = fn(ctx, a)
    except Infra as e:
        print("INFRASTRUCTURE ERROR (%s): %s" % (a.pid, e), file=sys.stderr)
        rc = 2
    sys.exit(rc)
