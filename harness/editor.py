"""M1 at editor level: TLC-generated behaviours (spec/Gen_Ex.tla, ...) are typed into the
traced binary and the state recorded after every prompt line is compared with the state the
reference semantics expects.  Used by C06, C14, C15 and, for the undo / UTF-8 clauses, by
C04 and C16."""
import json, os, subprocess, tempfile
from concurrent.futures import ThreadPoolExecutor
from common import *
from regexlib import gen_tables

KIND_PROP = {"a": "C06", "i": "C06", "c": "C06", "d": "C06", "y": "C06", "pu": "C06", "p": "C06", "=": "C06",
             "k": "C06", "rs": "C06", "null": "C06", "se": "C06", "s": "C14", "g": "C15", "v": "C15",
             "u": "C04", "redo": "C04", "r": "C06", "!": "C06", "@": "C06"}
REGNAMES = [0, 97, 98, 109] + list(range(49, 58))


def run_vi(ctx, args, stdin_bytes, env_extra=None, timeout=20, cwd=None, trace=True, fsize=None):
    """run the traced binary; returns (records, rc, stderr, timed_out); fsize bounds the size of any file it writes"""
    d = ctx.build()
    work = cwd or tempfile.mkdtemp(prefix="run-", dir=ctx.scratch)
    tr = os.path.join(work, "trace.ndjson") if trace else None
    env = {"PATH": os.environ.get("PATH", "/usr/bin:/bin"), "HOME": work, "TERM": "xterm", "LINES": "24", "COLUMNS": "80"}
    env.update(ASAN_ENV)
    if tr:
        env["NEATVI_VERIF_TRACE"] = tr
    env.update(env_extra or {})
    try:
        p = subprocess.run((["prlimit", "--fsize=%d" % fsize] if fsize else []) + [os.path.join(d, "vi")] + args, input=stdin_bytes, capture_output=True, env=env,
                           cwd=work, timeout=timeout)
        rc, err, to = p.returncode, p.stderr.decode("utf-8", "replace"), False
    except subprocess.TimeoutExpired as e:
        rc, err, to = -9, (e.stderr or b"").decode("utf-8", "replace"), True
    recs = []
    if tr and os.path.exists(tr) and fsize and os.path.getsize(tr) >= fsize - 65536:
        recs, to = [{"ev": "runaway"}], True        # a trace this long is a loop that no longer reads its input
    elif tr and os.path.exists(tr):
        with open(tr, "rb") as f:
            if fsize and os.path.getsize(tr) > (30 << 20):      # a very long trace: only its last records are looked at
                f.seek(-(2 << 20), 2)
                f.readline()
                recs.append({"ev": "head-skipped"})
            for ln in f:
                try:
                    recs.append(json.loads(ln))
                except ValueError:
                    recs.append({"ev": "garbled"})
    return recs, rc, err, to, work


def cps(hexs):
    return [ord(c) for c in bytes.fromhex(hexs).decode("utf-8", "surrogateescape")] if hexs else []


def lines_of(lb):
    """buffer lines of a record as code point lists without the newline"""
    out = []
    for h in lb.get("lines", []):
        b = bytes.fromhex(h)
        if b.endswith(b"\n"):
            b = b[:-1]
        out.append([ord(c) for c in b.decode("utf-8", "surrogateescape")])
    return out


def project(rec, outs):
    lb = rec["bufs"][0]["lb"]
    regs = sorted([r[0], r[1], cps(r[2])] for r in rec["regs"] if r[0] in REGNAMES)
    marks = {97 + m[0]: m[1] for m in lb["marks"] if m[0] < 26}
    return {"lines": lines_of(lb), "row": rec["row"], "ret": rec["ret"], "out": outs, "regs": regs, "marks": marks,
            "dirty": lb["dirty"], "n": lb["n"]}


def toplevel_states(recs):
    """(projection, raw record) after every prompt line, with the lines it printed"""
    outs, res = [], []
    for r in recs:
        if r.get("ev") == "out" and r.get("kind") == "print" and r.get("s") is not None:
            outs.append(cps(r["s"]))
        elif r.get("ev") == "ex" and r.get("lvl") == 0:
            res.append((project(r, outs), r))
            outs = []
    return res


def txt(cpl):
    return "".join(map(chr, cpl))


def compare(exp, got):
    """first differing field between the expected projection and the recorded one, or None"""
    if got["lines"] != exp["lines"]:
        return "lines"
    if got["row"] != exp["row"]:
        return "row"
    if got["out"] != exp["out"]:
        return "out"
    if got["regs"] != sorted(exp["regs"]):
        return "regs"
    for m, row in exp["marks"]:
        if got["marks"].get(m, -1) != row:
            return "marks"
    if (got["ret"] != 0) != (exp["ret"] != 0):
        return "ret"
    return None


def run_script(ctx, script, mode_args=("-s", "-e")):
    """type one generated script into the binary; returns dict(status, step, field, ...)"""
    typed = b"".join(txt(s["typed"]).encode("utf-8", "surrogateescape") for s in script["steps"]) + b"q!\n"
    # the working directory holds the files of Gen_Ex!FilePool; writeany lets :range!filter run in a modified buffer
    work = tempfile.mkdtemp(prefix="run-", dir=ctx.scratch)
    with open(os.path.join(work, "f1"), "w", encoding="utf-8") as f:
        f.write("r1\n\u00e9 r2\n\n")
    open(os.path.join(work, "f0"), "w").close()
    recs, rc, err, to, work = run_vi(ctx, list(mode_args), typed, cwd=work, env_extra={"EXINIT": "se wa"})
    shutil.rmtree(work, True)
    states = toplevel_states(recs)
    if states and states[0][1].get("ln") == b"se wa".hex():
        states = states[1:]          # the EXINIT line
    complete = bool(recs) and recs[-1].get("ev") == "exit" and rc == 0
    res = {"seed": script["seed"], "profile": script.get("profile"), "nsteps": len(script["steps"]), "checked": 0,
           "status": "ok", "complete": complete, "rc": rc}
    for i, st in enumerate(script["steps"]):
        if i >= len(states):
            break
        field = compare(st["exp"], states[i][0])
        res["checked"] = i + 1
        if field and "alt" in st and compare(st["alt"], states[i][0]) is None:
            # the recorded state is exactly what the operational transcription (the known deviation) predicts
            res.update(status="known", wb=st.get("wb", 0), step=i, kinds=st.get("kinds", []), typed=txt(st["typed"]),
                       history=[txt(s["typed"]) for s in script["steps"][:i + 1]], field=field,
                       expected=st["exp"], got=states[i][0], before=(states[i - 1][0] if i else None))
            return res
        if field:
            res.update(status="mismatch", step=i, field=field, kinds=st.get("kinds", []),
                       typed=txt(st["typed"]), expected=st["exp"], got=states[i][0],
                       before=(states[i - 1][0] if i else None),
                       history=[txt(s["typed"]) for s in script["steps"][:i + 1]])
            return res
    if not complete:
        res.update(status="incomplete", step=len(states), stderr=err[-3000:], timed_out=to,
                   history=[txt(s["typed"]) for s in script["steps"][:len(states) + 1]])
    return res


def replay_script(ctx, script):
    """type the prompt lines of a replay file and compare the state after the last one with the expectation recorded in it"""
    typed = b"".join(txt(s["typed"]).encode("utf-8", "surrogateescape") for s in script["steps"]) + b"q!\n"
    work = tempfile.mkdtemp(prefix="run-", dir=ctx.scratch)
    with open(os.path.join(work, "f1"), "w", encoding="utf-8") as f:
        f.write("r1\n\u00e9 r2\n\n")
    open(os.path.join(work, "f0"), "w").close()
    recs, rc, err, to, work = run_vi(ctx, ["-s", "-e"], typed, cwd=work, env_extra={"EXINIT": "se wa"})
    shutil.rmtree(work, True)
    states = toplevel_states(recs)
    if states and states[0][1].get("ln") == b"se wa".hex():
        states = states[1:]
    n = len(script["steps"])
    if len(states) < n:
        return {"field": "incomplete", "stderr": err[-1500:], "states": len(states), "lines": n}
    got = states[n - 1][0]
    return {"field": compare(script["steps"][-1]["exp"], got), "expected": script["steps"][-1]["exp"], "got": got}


def gen_scripts(ctx, module, profile, nscripts, nsteps, extra_env=None):
    per = max(1, (nscripts + NCPU - 1) // NCPU)
    jobs = []
    for k in range(0, nscripts, per):
        j = dict(SEED0=(ctx.seed * 1000 + k) % 50000 + 1, NSCRIPTS=min(per, nscripts - k), NSTEPS=nsteps, PROFILE=profile)
        j.update(extra_env or {})
        jobs.append(j)
    scripts = []
    for job, path in gen_tables(ctx, jobs, module=module):
        for ln in open(path):
            scripts.append(json.loads(ln))
    return scripts


def run_scripts(ctx, scripts, mode_args=("-s", "-e")):
    ctx.build()
    with ThreadPoolExecutor(NCPU) as ex:
        return list(ex.map(lambda s: run_script(ctx, s, mode_args), scripts))


def judge(ctx, results, own, describe):
    """turn script results into violations of property `own`; divergences in commands of other properties
    end the script without a verdict here (their own check reports them)"""
    st = dict(scripts=len(results), commands=0, mismatch_own=0, mismatch_other=0, incomplete=0)
    for r in results:
        st["commands"] += r["checked"]
        if r["status"] == "mismatch":
            props = {KIND_PROP.get(k, own) for k in r["kinds"]} or {own}
            prop = own if own in props else sorted(props)[0]
            if r["field"] in ("lines", "row", "out", "regs", "marks", "ret") and prop == own:
                st["mismatch_own"] += 1
                ctx.violation(describe(r), {k: r[k] for k in ("seed", "profile", "step", "field", "typed", "history",
                                                              "expected", "got", "before", "kinds")},
                              {"kind": "state", "field": r["field"], "cmd": r["kinds"][0] if r["kinds"] else "?"})
            else:
                st["mismatch_other"] += 1
        elif r["status"] == "known":
            st["known"] = st.get("known", 0) + 1
            props = {KIND_PROP.get(k, own) for k in r["kinds"]}
            if own in props:
                ctx.violation(describe(r), {k: r[k] for k in ("seed", "profile", "step", "field", "typed", "history",
                                                              "expected", "got", "before", "kinds")},
                              {"kind": "known-deviation", "model": "operational", "wordboundary": r.get("wb", 0)})
        elif r["status"] == "incomplete":
            st["incomplete"] += 1
            # crash / sanitizer abort / hang: a C05 matter, but it also voids this script
            ctx.notes.append("incomplete trace (seed %s): %s" % (r["seed"], (r.get("stderr") or "")[-300:]))
    return st


def describe_default(r):
    e, g = r["expected"], r["got"]
    f = r["field"]
    def show(p):
        if f == "lines":
            return [txt(x) for x in p["lines"]]
        if f == "out":
            return [txt(x) for x in p["out"]]
        if f == "regs":
            return [(a, b, txt(c)) for a, b, c in sorted(p["regs"])]
        return p.get(f)
    return "after %r (step %d of seed %s, history %s): %s expected %s, recorded %s" % (
        r["typed"], r["step"], r["seed"], r["history"][-4:-1], f, show(e), show(g))


def gen_exh(ctx, depth, ranges):
    """profile exh of Gen_Ex: all sequences of `depth' prompt lines over Gen_Ex!ExhCmds with sequence numbers in `ranges'"""
    jobs = [dict(PROFILE="exh", EXHD=depth, EXHLO=a, EXHHI=b) for a, b in ranges]
    out = []
    for job, path in gen_tables(ctx, jobs, module="Gen_Ex", timeout=3000):
        out += [json.loads(ln) for ln in open(path)]
    return out


NEXH = 31       # Len(Gen_Ex!ExhCmds)


def ex_check(ctx, own, profile, nscripts, nsteps, rule, assumptions, module="Gen_Ex", exh=False, mc_depth=0):
    """the common body of the ex-mode behaviour checks"""
    mc = None
    if mc_depth:
        cfg = ctx.path("cfg", "mc_ex.cfg")
        with open(cfg, "w") as f:
            f.write("SPECIFICATION MCSpec\nCONSTANTS MaxSteps = %d\nINVARIANT Inv\nPROPERTY StepProps\nVIEW MCView\nCHECK_DEADLOCK FALSE\n" % mc_depth)
        mc = tlc_model(ctx, "MC_Ex", cfg, timeout=10000, heap="24g")
    scripts = gen_scripts(ctx, module, "corpus", 1, 1) + gen_scripts(ctx, module, profile, nscripts, nsteps)
    nexh = 0
    if exh:
        from regexlib import split_range
        import random
        rng = random.Random(ctx.seed)
        ex = gen_exh(ctx, 2, split_range(0, NEXH ** 2, NCPU))
        if ctx.quick:
            ex += gen_exh(ctx, 3, [(a, a + 60) for a in sorted(rng.randrange(0, NEXH ** 3 - 60) for _ in range(2 * NCPU))])
        else:
            ex += gen_exh(ctx, 3, split_range(0, NEXH ** 3, 4 * NCPU))
        nexh = len(ex)
        scripts += ex
    nthm = 0
    for sc in scripts:
        for st in sc["steps"]:
            nthm += 1
            if not st["thm"]:
                raise Infra("Ex.tla violates its own properties (Thm) at seed %s, line %r" % (sc["seed"], txt(st["typed"])))
    results = run_scripts(ctx, scripts)
    st = judge(ctx, results, own, describe_default)
    own_cmds = sum(1 for sc, r in zip(scripts, results) for s in sc["steps"][:r["checked"]]
                   if any(KIND_PROP.get(k) == own for k in s["kinds"]))
    changed = sum(1 for sc, r in zip(scripts, results) for i, s in enumerate(sc["steps"][:r["checked"]])
                  if any(KIND_PROP.get(k) == own for k in s["kinds"]) and
                  (i == 0 or s["exp"]["lines"] != sc["steps"][i - 1]["exp"]["lines"] or s["exp"]["out"]))
    import collections
    kinds = collections.Counter(k for sc, r in zip(scripts, results) for s in sc["steps"][:r["checked"]] for k in s["kinds"])
    st["commands_by_kind"] = dict(sorted(kinds.items()))
    st["exhaustive_scripts"] = nexh
    samples = []
    for sc, r in zip(scripts[:2], results[:2]):
        samples.append({"seed": sc["seed"], "script": [txt(s["typed"]) for s in sc["steps"][:12]],
                        "final_text_expected": [txt(x) for x in sc["steps"][min(11, len(sc["steps"]) - 1)]["exp"]["lines"]],
                        "commands_compared": r["checked"]})
    if mc:
        st["mc_ex"] = {"max_lines": mc_depth, "states_generated": mc["generated"], "distinct_states": mc["distinct"], "wall_s": round(mc["wall"])}
    cov = {"states": nthm + (mc["distinct"] if mc else 0), "transitions": nthm + (mc["generated"] if mc else 0),
           "traces_validated_against_impl": len(results), "samples": samples,
           "evaluations": st["commands"], "distinct_nontrivial": changed, "rule": rule, "stats": st,
           "commands_of_this_property": own_cmds,
           "explanation": "states/transitions = states of MC_Ex explored by TLC (every history of mc_ex.max_lines prompt lines over "
                          "Gen_Ex!ExhCmds with Frame, Rejected, MarkStays, OneStep, Inv) plus prompt lines on which TLC evaluated Thm (rejection leaves the text alone, one undo "
                          "step per line, redo inverse, scalar values only, ghost stacks consistent); every line's expected "
                          "state (text, current line, output, registers, solid marks, status) was compared with the traced binary"}
    return ctx.finish("model_checking", cov, assumptions)


def undo_traces(ctx):
    """C04 at editor level: behaviours with undo / redo; the text after every u / redo (and after every other
    line, so that the model stays in step) is compared with Ex.tla, whose log is Lbuf.tla's"""
    scripts = gen_scripts(ctx, "Gen_Ex", "lines", 160 if ctx.quick else 3000, 40, extra_env={"UNDOHEAVY": "1"})
    results = run_scripts(ctx, scripts)
    st = judge(ctx, results, "C04", describe_default)
    undo_cmds = sum(1 for sc, r in zip(scripts, results) for s in sc["steps"][:r["checked"]]
                    if any(k in ("u", "redo") for k in s["kinds"]))
    return {"traces": len(results), "commands": st["commands"], "undo_redo_commands": undo_cmds, "stats": st,
            "samples": [{"seed": scripts[0]["seed"], "script": [txt(s["typed"]) for s in scripts[0]["steps"][:10]]}]}


def utf8_traces(ctx):
    """C16, editing clause: every line of every recorded state of substitute / line-command behaviours over
    multi-byte text is valid UTF-8"""
    scripts = gen_scripts(ctx, "Gen_Ex", "sub", 120 if ctx.quick else 3000, 30)
    ctx.build()
    bad = 0
    states = 0

    def one(sc):
        typed = b"".join(txt(s["typed"]).encode("utf-8") for s in sc["steps"]) + b"q!\n"
        recs, rc, err, to, work = run_vi(ctx, ["-s", "-e"], typed)
        shutil.rmtree(work, True)
        out = []
        for r in recs:
            if r.get("ev") == "ex" and r.get("lvl") == 0:
                for h in r["bufs"][0]["lb"].get("lines", []):
                    try:
                        bytes.fromhex(h).decode("utf-8")
                    except UnicodeDecodeError:
                        out.append((bytes.fromhex(r["ln"]).decode("utf-8", "replace"), h))
        return len([r for r in recs if r.get("ev") == "ex"]), out
    with ThreadPoolExecutor(NCPU) as ex:
        for sc, (n, out) in zip(scripts, ex.map(one, scripts)):
            states += n
            for cmd, h in out[:1]:
                bad += 1
                ctx.violation("after %r the buffer holds a line that is not valid UTF-8: %s" % (cmd, h),
                              {"seed": sc["seed"], "command": cmd, "line_hex": h,
                               "script": [txt(s["typed"]) for s in sc["steps"]]}, {"kind": "invalid-utf8"})
    return {"traces": len(scripts), "states_checked": states, "invalid": bad}
