/* LD_PRELOAD shim for C05: every shell-out of the editor (execvp of /bin/sh -c cmd) runs a harmless filter instead,
 * so that mutated command streams cannot run arbitrary shell commands */
#define _GNU_SOURCE
#include <dlfcn.h>
#include <string.h>
#include <unistd.h>
#include <fcntl.h>
#include <sys/stat.h>

static struct stat in0;		/* the editor's own standard input */

__attribute__((constructor)) static void shim_init(void)
{
	fstat(0, &in0);
}

int execvp(const char *file, char *const argv[])
{
	static int (*real)(const char *, char *const []);
	if (file && !strcmp(file, "/bin/sh")) {
		char *av[] = {"tr", "a-z", "A-Z", NULL};
		struct stat st;
		/* a command that would read the editor's terminal must not eat the rest of the key stream */
		if (!fstat(0, &st) && st.st_ino == in0.st_ino && st.st_dev == in0.st_dev) {
			int fd = open("/dev/null", O_RDONLY);
			dup2(fd, 0);
			close(fd);
		}
		execv("/usr/bin/tr", av);
		_exit(127);
	}
	if (!real)
		real = dlsym(RTLD_NEXT, "execvp");
	return real(file, argv);
}
