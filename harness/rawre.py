"""C11, raw entry: every string of <= N symbols over the metacharacter alphabet handed to regcomp() itself (the editor's
own callers wrap patterns into "(...)", which hides the end of the string from the backslash and "{" parsers).  The
compiler must answer - refuse or compile - within the time limit and without a sanitizer report; a compiled program is
run once against a probe line."""
import itertools, os, subprocess

ALPHA = ["a", "\\", "{", "}", "1", ",", "(", ")", "[", "]", "*", "|", "2", "<"]


def raw_check(ctx, maxlen):
    exe = ctx.probe("rawre")
    pats = ["".join(t) for n in range(1, maxlen + 1) for t in itertools.product(ALPHA, repeat=n)]
    st = dict(raw_patterns=len(pats), raw_refused=0, raw_compiled=0, raw_timeouts=0, raw_crashes=0)
    env = dict(os.environ, ASAN_OPTIONS="detect_leaks=0:abort_on_error=0", UBSAN_OPTIONS="halt_on_error=1")
    i = 0
    reported = 0
    while i < len(pats) and reported < 40:     # forty reports are enough: every hang costs its time limit
        inp = "".join(p.encode().hex() + "\n" for p in pats[i:i + 400])     # in portions, so that a tree full of hangs is given up early
        r = subprocess.run([exe], input=inp, capture_output=True, text=True, env=env, timeout=3600)
        lines = r.stdout.split("\n")
        k = i - 1            # index of the pattern whose "P" line was seen last
        answered = True
        for ln in lines:
            if ln.startswith("P "):
                k += 1
                answered = False
            elif ln == "E":
                st["raw_refused"] += 1; answered = True
            elif ln.startswith("r "):
                st["raw_compiled"] += 1; answered = True
                so, eo = map(int, ln.split()[1:3])
                if not (so == eo == -1 or 0 <= so <= eo <= 24):
                    ctx.violation("regcomp(%r): match offsets %d..%d out of bounds" % (pats[k], so, eo),
                                  {"pattern": pats[k], "entry": "regcomp"}, {"kind": "bounds", "entry": "raw"})
            elif ln == "T":
                st["raw_timeouts"] += 1; answered = True
                if reported >= 40:
                    break
                if reported < 40:
                    reported += 1
                    ctx.violation("regcomp(%r) called directly: no answer within 2 s (compilation or the match does not terminate)" % pats[k],
                                  {"pattern": pats[k], "entry": "regcomp"}, {"kind": "raw-hang", "entry": "raw"})
        if k < i:
            raise RuntimeError("rawre: no output: " + r.stderr[-500:])
        if not answered and k >= i:
            st["raw_crashes"] += 1
            msg = [l for l in r.stderr.splitlines() if "SUMMARY" in l or "runtime error" in l]
            if reported < 40:
                reported += 1
                ctx.violation("regcomp(%r) called directly: memory error / crash: %s" % (pats[k], (msg or [r.stderr[-200:]])[0][:300]),
                              {"pattern": pats[k], "entry": "regcomp", "stderr": r.stderr[-2000:]}, {"kind": "raw-crash", "entry": "raw"})
            i = k + 1
        else:
            i = k + 1
            if r.returncode != 0:
                raise RuntimeError("rawre: exit %d at pattern %d: %s" % (r.returncode, i, r.stderr[-500:]))
    return st
