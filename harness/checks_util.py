import os, subprocess
from common import HARNESS, Infra


def build_shim(ctx):
    out = ctx.path("shim.so")
    if os.path.exists(out):
        return out
    r = subprocess.run(["gcc", "-shared", "-fPIC", "-O1", "-o", out, os.path.join(HARNESS, "shim.c"), "-ldl"],
                       capture_output=True, text=True)
    if r.returncode:
        raise Infra("shim: " + r.stderr)
    return out


def build_execshim(ctx):
    out = ctx.path("execshim.so")
    if os.path.exists(out):
        return out
    r = subprocess.run(["gcc", "-shared", "-fPIC", "-O1", "-o", out, os.path.join(HARNESS, "execshim.c"), "-ldl"],
                       capture_output=True, text=True)
    if r.returncode:
        raise Infra("execshim: " + r.stderr)
    return out
