"""Shared by C17 and C18: tables from spec/Gen_Layout.tla against harness/renprobe.c and ucprobe.c."""
import json, os
from common import *
from regexlib import gen_tables, split_range, enc
from probe import run_probe
import tables


def lib_env(ctx):
    """regenerate UcTables / ShapeRef from the tree under test; TLC finds them through TLA-Library"""
    d = ctx.path("tlalib", "x")[:-2]
    info = tables.write_tables(ctx.build(), d)
    return {"VERIF_TLA_LIB": d}, info


def line_tables(ctx, nlines, nopt, mode="lines", lo=0):
    env, info = lib_env(ctx)
    jobs = [dict(MODE=mode, LO=a, HI=b, NOPT=nopt, **env) for a, b in split_range(lo, lo + nlines, NCPU * 2)]
    cases = []
    for job, path in gen_tables(ctx, jobs, module="Gen_Layout", timeout=2400):
        cases += [json.loads(ln) for ln in open(path)]
    return cases, info


def run_lines(ctx, cases):
    exe = ctx.probe("renprobe")
    reqs = ["%d %d %d %s %d" % (c["order"], c["td"], c["lim"], enc(c["line"]), c.get("at", -1)) for c in cases]
    resps, crashes = run_probe(exe, reqs)
    return [(json.loads(r) if r else None, cr) for r, cr in zip(resps, crashes)]


MARK_LINES = ["\u0633\u0644\u0627\u0645 \\*[ab \u06af\u0644 cd] \u062f\u0646\u06cc\u0627", "\u0633\u0644\u0627\u0645 \\x{ab \u062f\u0646\u06cc\u0627} \u0633\u0644\u0627\u0645",
              "\u0633\u0644\u0627\u0645 \\fB{\u0633\u0644\u0627\u0645 de} x", "abc \\*[\u06af\u0644 ab \u06af\u0644] def", "$x+y$ \u0633\u0644\u0627\u0645", "\u0633\u0644\u0627\u0645 $x+y$ \u062f\u0646\u06cc\u0627",
              "\\cmd{ab} \u0633\u0644\u0627\u0645", "\u0633\u0644\u0627\u0645 \\word ab", "ab \\*[cd] ef", "\u0633\u0644\u0627\u0645 \\*[\\x{ab \u06af\u0644} c] \u062f\u0646\u06cc\u0627",
              "\u0633\u0644\u0627\u0645 \\x{a\tb \u062f\u0646\u06cc\u0627} \u0633", "\u0633 \\*[a\u6f22 \u06af\u0644\u06af c] \u062f", "ab \u0633\u0644\u0627\u0645 \\x{cd \u06af\u0644 ef} gh",
              "\u0633\u0644 \\*[ab] \\*[cd \u06af\u0644] \u062f", "\u0633\u0644\u0627\u0645 `ab cd' \u062f", "x \\*[\u06af\u0644] $a$ \\y{\u062f\u0646}"]


# pure-ASCII lines: in a right-to-left context (forced, or by default for a line that begins with no letter) their Latin runs are
# the opposite-direction runs and appear reversed in place
LATIN_LINES = [" abc def", "(ab) cd", "-ab", " a", ". ab1 cd", "ab cd", "  ab", "(a) (bc) d", "1 ab", "_x yz", "ab", "a b c", "!ab cd! ef", " ab\tcd"]


def mark_tables(ctx, nopt, lines=None, tag="marklines"):
    """given lines (default: those with nested direction marks) through mode marklist of Gen_Layout, nopt option combinations each"""
    env, info = lib_env(ctx)
    jobs = []
    lines = MARK_LINES if lines is None else lines
    per = max(1, (len(lines) + NCPU - 1) // NCPU)
    for i in range(0, len(lines), per):
        f = ctx.path("gen", "%s_%d.ndjson" % (tag, i))
        open(f, "w").write("".join(json.dumps([ord(c) for c in x]) + "\n" for x in lines[i:i + per]))
        jobs.append(dict(MODE="marklist", IDXFILE=f, NOPT=nopt, **env))
    cases = []
    for job, path in gen_tables(ctx, jobs, module="Gen_Layout", timeout=2400):
        cases += [json.loads(ln) for ln in open(path)]
    return cases
