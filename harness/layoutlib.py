"""Shared by C17 and C18: tables from spec/Gen_Layout.tla against harness/renprobe.c and ucprobe.c."""
import json, os
from common import *
from regexlib import gen_tables, split_range, enc
from probe import run_probe
import tables


def lib_env(ctx):
    """regenerate UcTables / ShapeRef from the tree under test; TLC finds them through TLA-Library"""
    d = ctx.path("tlalib", "x")[:-2]
    info = tables.write_tables(ctx.build(), d)
    return {"VERIF_TLA_LIB": d}, info


def line_tables(ctx, nlines, nopt, mode="lines", lo=0):
    env, info = lib_env(ctx)
    jobs = [dict(MODE=mode, LO=a, HI=b, NOPT=nopt, **env) for a, b in split_range(lo, lo + nlines, NCPU * 2)]
    cases = []
    for job, path in gen_tables(ctx, jobs, module="Gen_Layout", timeout=2400):
        cases += [json.loads(ln) for ln in open(path)]
    return cases, info


def run_lines(ctx, cases):
    exe = ctx.probe("renprobe")
    reqs = ["%d %d %d %s %d" % (c["order"], c["td"], c["lim"], enc(c["line"]), c.get("at", -1)) for c in cases]
    resps, crashes = run_probe(exe, reqs)
    return [(json.loads(r) if r else None, cr) for r, cr in zip(resps, crashes)]
