"""M1 for visual mode: Gen_Vi behaviours are typed into `vi -v'; the state recorded at every command boundary
(the `vi' hook record at the top of the main loop) is compared with the state Vi!ViCmd expects."""
import json, os
from concurrent.futures import ThreadPoolExecutor
from common import *
from regexlib import gen_tables
import editor
from editor import run_vi, lines_of, cps, txt, REGNAMES

SUBPROP = {"/": "C13", "?": "C13", "n": "C13", "N": "C13", "^A": "C13"}


def vi_states(recs):
    out = []
    pushed = b""
    for r in recs:
        if r.get("ev") == "push":
            pushed += bytes.fromhex(r["s"])
        if r.get("ev") == "vi":
            lb = r["bufs"][0]["lb"]
            out.append({"lines": lines_of(lb), "row": r["row"], "off": r["off"], "xcol": r["xcol"],
                        "regs": sorted([x[0], x[1], cps(x[2])] for x in r["regs"] if x[0] in REGNAMES),
                        "keys": r["keys"], "top": r["top"], "done": r["done"], "pushed": pushed})
            pushed = b""
    return out


def compare(exp, got, kind):
    if got["lines"] != exp["lines"]:
        return "text"
    if (got["row"], got["off"]) != (exp["row"], exp["off"]):
        return "cursor"
    if got["regs"] != sorted(exp["regs"]):
        return "registers"
    if got["xcol"] != exp["xcol"]:
        return "column"
    if kind == "WINDOW" and got["top"] != exp["top"]:
        return "window"
    return None


def run_script(ctx, sc):
    keys = b"".join(txt(s["keys"]).encode("utf-8", "surrogateescape") for s in sc["steps"])
    pre = b":se noai\n" if not sc.get("ai", 1) else b""
    recs, rc, err, to, work = run_vi(ctx, ["-v"], pre + keys + b":q!\n", env_extra={"LINES": str(sc.get("rows", 23) + 1), "COLUMNS": "80"}, timeout=30)
    shutil.rmtree(work, True)
    st = vi_states(recs)
    skip = 2 if pre else 1            # the record before any key, and the one after ":se noai"
    res = {"seed": sc["seed"], "profile": sc["profile"], "status": "ok", "checked": 0}
    complete = bool(recs) and recs[-1].get("ev") == "exit" and rc == 0
    for i, s in enumerate(sc["steps"]):
        if skip + i >= len(st):
            break
        g = st[skip + i]
        f = compare(s["exp"], g, "WINDOW" if sc["profile"] == "scroll" else s["kind"])
        if not f and "push" in s and g["pushed"] != txt(s["push"]).encode("utf-8", "surrogateescape"):
            f = "pushed"        # the keys put back into the input queue by . / @
        res["checked"] = i + 1
        if f and "alt" in s and compare(s["alt"], g, s["kind"]) is None:
            res.update(status="known", wb=s.get("wb", 0), step=i, field=f, kind=s["kind"], sub=s["sub"], keys=txt(s["keys"]), expected=s["exp"],
                       got={k: g[k] for k in ("lines", "row", "off", "xcol", "regs", "top")}, before=(st[skip + i - 1] if i else None),
                       history=[txt(x["keys"]) for x in sc["steps"][:i + 1]])
            return res
        if f:
            res.update(status="mismatch", step=i, field=f, kind=s["kind"], sub=s["sub"], keys=txt(s["keys"]),
                       expected=dict(s["exp"], pushed=txt(s.get("push", []))),
                       got={k: (g[k].decode("utf-8", "replace") if k == "pushed" else g[k]) for k in ("lines", "row", "off", "xcol", "regs", "top", "pushed")},
                       before=(st[skip + i - 1] if i else None), history=[txt(x["keys"]) for x in sc["steps"][:i + 1]],
                       queued=s.get("queued", 0))
            return res
    res["final"] = st[-1] if st else None
    if not complete:
        res.update(status="incomplete", stderr=err[-2500:], timed_out=to, step=res["checked"],
                   history=[txt(x["keys"]) for x in sc["steps"][:res["checked"] + 1]])
    return res


def replay_script(ctx, r):
    """type the key history of a replay file and compare the state after the last command with the expectation in it"""
    keys = b"".join(h.encode("utf-8", "surrogateescape") for h in r["history"])
    out = {}
    for ai in ((1, 0) if "ai" not in r else (r["ai"],)):
        pre = b":se noai\n" if not ai else b""
        recs, rc, err, to, work = run_vi(ctx, ["-v"], pre + keys + b":q!\n", env_extra={"LINES": str(r.get("rows", 23) + 1), "COLUMNS": "80"}, timeout=30)
        shutil.rmtree(work, True)
        st = vi_states(recs)
        idx = (2 if pre else 1) + len(r["history"]) - 1
        if idx >= len(st):
            out = {"field": "incomplete", "stderr": err[-1500:]}
            continue
        f = compare(r["expected"], st[idx], "WINDOW" if r.get("profile") == "scroll" else r.get("kind"))
        out = {"field": f, "autoindent": ai, "expected": {k: r["expected"].get(k) for k in ("row", "off", "xcol", "top")},
               "got": {k: st[idx][k] for k in ("row", "off", "xcol", "top")}}
        if not f:
            return out          # reproduces under neither setting only if both differ
    return out


def gen(ctx, profile, nscripts, nsteps, ai=1, rows=23):
    env, info = lib_env(ctx)
    env = dict(env, ROWS=rows)
    per = max(1, (nscripts + NCPU - 1) // NCPU)
    jobs = [dict(SEED0=(ctx.seed * 1009 + k) % 30000 + 1, NSCRIPTS=min(per, nscripts - k), NSTEPS=nsteps, PROFILE=profile, AI=ai, **env)
            for k in range(0, nscripts, per)]
    out = []
    for job, path in gen_tables(ctx, jobs, module="Gen_Vi", timeout=2400):
        out += [json.loads(ln) for ln in open(path)]
    for sc in out:
        sc["rows"] = rows
        # a queue that would feed the text of a failing change to the command loop is not generated: the script ends before the
        # repeat command that pushed it
        if sc["steps"] and sc["steps"][-1]["kind"] == "cut":
            k = max([i for i, s in enumerate(sc["steps"]) if s["kind"] in ("dot", "at")] or [0])
            sc["steps"] = sc["steps"][:k]
    return out


def gen_exh(ctx, which, npos_per_text, full=False):
    """profile exh of Gen_Vi: every command of the set `which' ("mot" / "edit") from cursor positions 1..npos of each small
    buffer, two positions per TLC process"""
    env, info = lib_env(ctx)
    jobs = []
    for text, npos in enumerate(npos_per_text, 1):
        for lo in range(1, npos + 1, 2):
            jobs.append(dict(PROFILE="exh", EXHTEXT=text, EXHLO=lo, EXHHI=min(npos, lo + 1), EXHSET=which, EXHFULL=1 if full else 0,
                             AI=(text + lo // 2) % 2, **env))
    out = []
    for job, path in gen_tables(ctx, jobs, module="Gen_Vi", timeout=3000):
        out += [json.loads(ln) for ln in open(path)]
    return out


def lib_env(ctx):
    import tables
    d = ctx.path("tlalib", "x")[:-2]
    return {"VERIF_TLA_LIB": d}, tables.write_tables(ctx.build(), d)


def prop_of(kind, sub, field):
    if kind in ("dot", "at"):
        return "C09"
    if kind == "mot":
        return SUBPROP.get(sub, "C07")
    if kind in ("u", "^R"):
        return "C04"
    return "C08"


def show(p, f):
    if f == "text":
        return [txt(x) for x in p["lines"]]
    if f == "cursor":
        return (p["row"], p["off"])
    if f == "registers":
        return [(a, b, txt(c)) for a, b, c in sorted(p["regs"])]
    if f == "pushed":
        return p.get("pushed")
    return p.get("xcol")


def mc_vi(ctx, runs):
    """TLC on MC_Vi for (text, depth) pairs; returns totals"""
    env, _ = lib_env(ctx)
    tot = dict(states_generated=0, distinct_states=0, runs=[])
    for text, depth in runs:
        cfg = ctx.path("cfg", "mc_vi_%d_%d.cfg" % (text, depth))
        with open(cfg, "w") as f:
            f.write("SPECIFICATION MCSpec\nCONSTANTS MaxSteps = %d\n MCText = %d\nINVARIANT Inv\nPROPERTY StepProps\nVIEW MCView\nCHECK_DEADLOCK FALSE\n" % (depth, text))
        r = tlc_model(ctx, "MC_Vi", cfg, timeout=10000, heap="24g", env=env)
        tot["states_generated"] += r["generated"]
        tot["distinct_states"] += r["distinct"]
        tot["runs"].append({"text": text, "max_commands": depth, "distinct": r["distinct"], "wall_s": round(r["wall"])})
    return tot


def vi_check(ctx, own, profile, nscripts, nsteps, rule, assumptions, exh=None, mc=None):
    scripts = (gen(ctx, "corpus", 1, 1) if own == "C13" else []) + \
        gen(ctx, profile, nscripts // 2, nsteps, ai=1) + gen(ctx, profile, nscripts - nscripts // 2, nsteps, ai=0)
    mcres = mc_vi(ctx, mc) if mc else None
    nexh = 0
    if exh:
        ex_scripts = gen_exh(ctx, *exh)
        nexh = sum(len(sc["steps"]) for sc in ex_scripts)
        scripts += ex_scripts
    nthm = 0
    for sc in scripts:
        for s in sc["steps"]:
            nthm += 1
            if not s["thm"]:
                raise Infra("Vi.tla violates its own properties (Thm) at seed %s keys %r" % (sc["seed"], txt(s["keys"])))
    ctx.build()
    with ThreadPoolExecutor(NCPU) as ex:
        results = list(ex.map(lambda s: run_script(ctx, s), scripts))
    st = dict(scripts=len(results), commands=0, own_cmds=0, moved=0, mismatch_own=0, mismatch_other=0, incomplete=0, exhaustive_steps=nexh)
    for sc, r in zip(scripts, results):
        st["commands"] += r["checked"]
        prev = None
        for s in sc["steps"][:r["checked"]]:
            if prop_of(s["kind"], s["sub"], None) == own:
                st["own_cmds"] += 1
                if prev is None or (s["exp"]["row"], s["exp"]["off"], s["exp"]["lines"]) != (prev["row"], prev["off"], prev["lines"]):
                    st["moved"] += 1
            prev = s["exp"]
        if r["status"] == "mismatch":
            p = prop_of(r["kind"], r["sub"], r["field"])
            if p == own:
                st["mismatch_own"] += 1
                ctx.violation("after %r (%s, step %d of seed %s, history %s): %s expected %s, recorded %s" %
                              (r["keys"], r["sub"], r["step"], r["seed"], r["history"][-4:-1], r["field"],
                               show(r["expected"], r["field"]), show(r["got"], r["field"])),
                              {k: r[k] for k in ("seed", "profile", "step", "field", "kind", "sub", "keys", "history", "expected", "got", "before")},
                              {"kind": "state", "field": r["field"], "cmd": r["sub"]})
            else:
                st["mismatch_other"] += 1
                if len(ctx.notes) < 12:
                    ctx.notes.append("divergence attributed to %s: seed %s %r (%s): %s" % (p, r["seed"], r["keys"], r["sub"], r["field"]))
        elif r["status"] == "known":
            st["known"] = st.get("known", 0) + 1
            if prop_of(r["kind"], r["sub"], r["field"]) == own or (own == "C13" and r["sub"] in ("d", "c", "y")):
                ctx.violation("after %r (%s, step %d of seed %s): %s expected %s, recorded %s" %
                              (r["keys"], r["sub"], r["step"], r["seed"], r["field"], show(r["expected"], r["field"]), show(r["got"], r["field"])),
                              {k: r[k] for k in ("seed", "profile", "step", "field", "kind", "sub", "keys", "history", "expected", "got", "before")},
                              {"kind": "known-deviation", "model": "operational", "wordboundary": r.get("wb", 0)})
        elif r["status"] == "incomplete":
            st["incomplete"] += 1
            if len(ctx.notes) < 12:
                ctx.notes.append("incomplete trace (C05) seed %s after %r: %s" % (r["seed"], r["history"][-2:], (r.get("stderr") or "")[-300:]))
    samples = [{"seed": sc["seed"], "keys": [txt(s["keys"]) for s in sc["steps"][:14]], "commands_compared": r["checked"]}
               for sc, r in list(zip(scripts, results))[:2]]
    if mcres:
        st["mc_vi"] = mcres
    cov = {"states": nthm + (mcres["distinct_states"] if mcres else 0), "transitions": nthm + (mcres["states_generated"] if mcres else 0),
           "traces_validated_against_impl": len(results), "samples": samples,
           "evaluations": st["commands"], "distinct_nontrivial": st["moved"], "rule": rule, "stats": st,
           "explanation": "states/transitions = states of MC_Vi explored by TLC (every history of mc_vi.runs[].max_commands commands over "
                          "Gen_Vi!ExhCmds from a small buffer, with CursorOK, MotionPure, FailStays, YankKeeps, UndoBack, Scalar) plus "
                          "commands on which TLC evaluated Gen_Vi!Thm (cursor on an existing character and never on "
                          "the newline of a non-empty line, motions leave the text alone, scalar values only); after every command the "
                          "recorded text, cursor, sticky column and registers were compared with Vi!ViCmd"}
    return ctx.finish("model_checking", cov, assumptions)


def repeat_check(ctx, nscripts, nsteps):
    """C09: (a) the keys pushed back by . / N. / @r / N@r / @@ are N copies of the last change / of the register, (b) every
    command taken from the queue has the effect Vi!ViCmd gives the same command when typed, (c) the two-run relation: the
    script and its expansion (every . and @ replaced by the keys it stands for) end in the same text, cursor and registers."""
    scripts = gen(ctx, "repeat", nscripts // 2, nsteps, ai=1) + gen(ctx, "repeat", nscripts - nscripts // 2, nsteps, ai=0)
    scripts += gen(ctx, "rcorpus", 1, 4, ai=1)          # 104. of a five-byte insert: the queue holds more than 512 bytes
    nthm = 0
    for sc in scripts:
        for s in sc["steps"]:
            nthm += 1
            if not s["thm"]:
                raise Infra("Vi.tla violates its own properties at seed %s" % sc["seed"])
    ctx.build()
    with ThreadPoolExecutor(NCPU) as ex:
        results = list(ex.map(lambda s: run_script(ctx, s), scripts))
        # the expansion: the same steps with what was queued typed instead
        expanded = [dict(sc, steps=[dict(s, keys=s["xkeys"]) for s in sc["steps"] if s["kind"] not in ("dot", "at")]) for sc in scripts]
        results2 = list(ex.map(lambda s: run_script(ctx, s), expanded))
    st = dict(scripts=len(results), commands=0, repeats=0, queued=0, pairs_compared=0, mismatch_own=0, mismatch_other=0, incomplete=0)
    for sc, r, r2 in zip(scripts, results, results2):
        st["commands"] += r["checked"]
        for s in sc["steps"][:r["checked"]]:
            st["repeats"] += s["kind"] in ("dot", "at")
            st["queued"] += s.get("queued", 0)
        if r["status"] == "mismatch":
            own = r["kind"] in ("dot", "at") or r.get("queued")
            if own:
                st["mismatch_own"] += 1
                ctx.violation("%s %r (%s, step %d of seed %s, history %s): %s expected %s, recorded %s" %
                              ("taken from the queue:" if r.get("queued") else "after", r["keys"] or "(queued keys)", r["sub"], r["step"], r["seed"],
                               [h for h in r["history"][-6:-1] if h], r["field"], show(r["expected"], r["field"]), show(r["got"], r["field"])),
                              {k: r[k] for k in ("seed", "step", "field", "kind", "sub", "keys", "history", "expected", "got", "queued")},
                              {"kind": "repeat", "field": r["field"], "cmd": r["sub"], "queued": r.get("queued", 0)})
            else:
                st["mismatch_other"] += 1
                if len(ctx.notes) < 10:
                    ctx.notes.append("divergence attributed to %s: seed %s %r: %s" % (prop_of(r["kind"], r["sub"], None), r["seed"], r["keys"], r["field"]))
        elif r["status"] == "incomplete" or r2["status"] == "incomplete":
            st["incomplete"] += 1
        elif r["status"] == "ok" and r2["status"] == "ok" and r["final"] and r2["final"]:
            st["pairs_compared"] += 1
            a, b = r["final"], r2["final"]
            for f in ("lines", "row", "off", "regs"):
                if a[f] != b[f]:
                    st["mismatch_own"] += 1
                    ctx.violation("seed %s: the script with . / @ and the same script with the keys typed out end differently in %s" % (sc["seed"], f),
                                  {"seed": sc["seed"], "field": f, "typed": [txt(s["keys"]) for s in sc["steps"]],
                                   "expanded": [txt(s["xkeys"]) for s in sc["steps"]], "end_with_repeat": {k: a[k] for k in ("lines", "row", "off", "regs")},
                                   "end_expanded": {k: b[k] for k in ("lines", "row", "off", "regs")}}, {"kind": "two-run", "field": f})
                    break
    samples = [{"seed": sc["seed"], "keys": [txt(s["keys"]) or ("<queued: %s>" % txt(s["xkeys"])) for s in sc["steps"][:16]]} for sc in scripts[:2]]
    cov = {"states": nthm, "transitions": nthm, "traces_validated_against_impl": len(results) + len(results2), "samples": samples,
           "evaluations": st["commands"], "distinct_nontrivial": st["repeats"] + st["queued"], "stats": st,
           "rule": "scripts with . N. @a N@a @@ after every kind of change (operators with counts and registers, inserts with multi-byte "
                   "text and control keys, changes that prompt for text); non-trivial = a repeat command or a command taken from the queue"}
    return ctx.finish("model_checking", cov, ["a . or @ inside an executing macro is not generated (its keys are appended after the rest of the macro)",
                                             "register a is reserved for the macro in these scripts"])
