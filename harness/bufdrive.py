"""Lock-step driver for Gen_Bufs behaviours: commands are typed one at a time into the traced
`vi -s -e'; between commands the driver performs the model's external events (another program
touching or rewriting a file).  After every command the recorded buffer table, current line, status
and messages are compared with Bufs!Step's state; the files on disk are compared at the end."""
import json, os, subprocess, tempfile, time
from concurrent.futures import ThreadPoolExecutor
from common import *
from regexlib import gen_tables

ATTR = {"e": "C20", "b": "C20", "q": "C02", "wq": "C02", "x": "C02", "xa": "C02", "w": "C03",
        "wp": "C02", "n": "C02", "a": "C06", "d": "C06", "u": "C04", "redo": "C04", "se": "C02", "line": "C02", "top": "C06"}


def fnv(lines):
    h = 1469598103
    for k in lines:
        for b in ("t%d\n" % k).encode():
            h = ((h ^ b) * 16777619) & 0x3fffffff
    return h


def tokens(lb):
    out = []
    for hx in lb.get("lines", []):
        s = bytes.fromhex(hx).decode("utf-8", "replace").rstrip("\n")
        out.append(int(s[1:]) if s[:1] == "t" and s[1:].isdigit() else s)
    return out


class Session:
    def __init__(self, ctx, extra_env=None, preload=None, args=()):
        self.work = tempfile.mkdtemp(prefix="buf-", dir=ctx.scratch)
        self.trace = os.path.join(self.work, "..", os.path.basename(self.work) + ".trace")
        env = {"PATH": os.environ.get("PATH", "/usr/bin:/bin"), "HOME": self.work, "TERM": "xterm",
               "NEATVI_VERIF_TRACE": self.trace}
        env.update(ASAN_ENV)
        env.update(extra_env or {})
        if preload:
            env["LD_PRELOAD"] = preload
        self.p = subprocess.Popen([os.path.join(ctx.build(), "vi"), "-s", "-e"] + list(args), stdin=subprocess.PIPE,
                                  stdout=subprocess.DEVNULL, stderr=subprocess.PIPE, env=env, cwd=self.work)
        self.off = 0
        self.pending = []
        self.t0 = int(time.time())

    def _read_new(self):
        if not os.path.exists(self.trace):
            return
        with open(self.trace, "rb") as f:
            f.seek(self.off)
            data = f.read()
        nl = data.rfind(b"\n")
        if nl < 0:
            return
        self.off += nl + 1
        for ln in data[:nl].split(b"\n"):
            if ln:
                try:
                    self.pending.append(json.loads(ln))
                except ValueError:
                    self.pending.append({"ev": "garbled"})

    def command(self, typed, timeout=15):
        """type one prompt line; returns (records up to and including its top-level ex record, exited)"""
        try:
            self.p.stdin.write(typed)
            self.p.stdin.flush()
        except (BrokenPipeError, OSError):
            pass
        t_end = time.time() + timeout
        got = []
        while True:
            self._read_new()
            while self.pending:
                r = self.pending.pop(0)
                got.append(r)
                if r.get("ev") == "ex" and r.get("lvl") == 0:
                    return got, self.p.poll() is not None
                if r.get("ev") == "exit":
                    return got, True
            if self.p.poll() is not None:
                self._read_new()
                if not self.pending:
                    return got, True
                continue
            if time.time() > t_end:
                return got, False
            time.sleep(0.001)

    def finish(self):
        try:
            self.p.stdin.write(b"q!\n")
            self.p.stdin.flush()
            self.p.stdin.close()
        except (BrokenPipeError, OSError, ValueError):
            pass
        try:
            rc = self.p.wait(timeout=10)
        except subprocess.TimeoutExpired:
            self.p.kill()
            rc = -9
        err = self.p.stderr.read().decode("utf-8", "replace")
        self._read_new()
        rest, self.pending = self.pending, []
        return rc, err, rest

    def cleanup(self):
        shutil.rmtree(self.work, True)
        try:
            os.remove(self.trace)
        except OSError:
            pass


def msg_class(recs):
    cls = ""
    for r in recs:
        if r.get("ev") == "out" and r.get("kind") == "show" and r.get("s"):
            t = bytes.fromhex(r["s"]).decode("utf-8", "replace")
            if "buffer modified" in t:
                cls = "modified"
            elif t.startswith("write failed"):
                cls = "wfail"
            elif "no such buffer" in t:
                cls = "nobuf"
    return cls


def compare(exp, rec, recs, exited):
    if exp["quit"]:
        if not (rec and rec.get("quit")) and not exited:
            return "quit", "the editor did not quit"
        return None, None
    if rec is None:
        return "quit", "the editor exited (or hung) although the command must not quit"
    if rec.get("quit"):
        return "quit", "the editor quits although the model refuses / continues"
    tab = [b for b in rec["bufs"] if b]
    if [b["bid"] for b in tab] != [b["id"] for b in exp["tab"]]:
        return "table", "buffer ids in table order: expected %s, recorded %s" % ([b["id"] for b in exp["tab"]], [b["bid"] for b in tab])
    for i, (e, b) in enumerate(zip(exp["tab"], tab)):
        path = bytes.fromhex(b["path"]).decode()
        if path != e["path"]:
            return "path", "buffer %d: path expected %r recorded %r" % (e["id"], e["path"], path)
        if b["lb"]["n"] != len(e["lines"]) or b["lb"]["hash"] != fnv(e["lines"]):
            return "text", "buffer %d (%s): text expected %s, recorded %s lines %s" % (
                e["id"], e["path"], e["lines"], b["lb"]["n"], tokens(b["lb"]) if i == 0 else "(hash differs)")
        if b["lb"]["dirty"] == 0 and e["differs"]:
            return "dirty-unsound", "buffer %d (%s) reports unmodified while its text differs from its file" % (e["id"], e["path"])
        if b["lb"]["dirty"] != e["dirty"]:
            return "dirty", "buffer %d (%s): modified flag expected %d recorded %d" % (e["id"], e["path"], e["dirty"], b["lb"]["dirty"])
        row = rec["row"] if i == 0 else b["row"]
        if row != e["row"]:
            return "row", "buffer %d (%s): current line expected %d recorded %d" % (e["id"], e["path"], e["row"], row)
        if (b["lb"]["hu"], b["lb"]["hn"]) != (e["hu"], e["hn"]):
            return "undo", "buffer %d (%s): undo log position expected %s recorded %s" % (
                e["id"], e["path"], (e["hu"], e["hn"]), (b["lb"]["hu"], b["lb"]["hn"]))
    if (rec["ret"] != 0) != (exp["ret"] != 0):
        return "ret", "status expected %d recorded %d" % (exp["ret"], rec["ret"])
    mc = msg_class(recs)
    if exp["msg"] in ("modified", "wfail", "nobuf") and mc != exp["msg"]:
        return "msg", "message class expected %r recorded %r" % (exp["msg"], mc)
    if exp["msg"] not in ("modified", "wfail") and mc in ("modified", "wfail"):
        return "msg", "unexpected message %r" % mc
    return None, None


def run_bufscript(ctx, script, shim=None):
    # file times have a granularity of one second: the model gives everything the editor writes in a session the
    # same stamp, so a session that straddles a second boundary is run again
    # (later attempts start right after a second boundary; a session that cannot be run inside one second even so - a loaded
    # machine - decides nothing: its divergences may come from the clock, and it is counted as inconclusive)
    for attempt in range(8):
        if attempt:
            time.sleep(1.0 - (time.time() % 1.0) + 0.002)
        r = _run_bufscript(ctx, script, shim)
        if not r.pop("straddled", False) or r["status"] == "ok":
            return r
    if r["status"] == "mismatch":
        r = dict(r, status="ok", inconclusive_timing=1, checked=max(0, r.get("checked", 1) - 1))
    return r


def _run_bufscript(ctx, script, shim=None):
    s = Session(ctx, preload=shim, args=script.get("args", ()))
    res = {"seed": script["seed"], "status": "ok", "checked": 0, "history": []}
    try:
        exited = False
        for i, st in enumerate(script["steps"]):
            c = st["cmd"]
            if c["k"] in ("touch", "ext"):
                p = os.path.join(s.work, c["path"])
                t = s.t0 + 1000 * (st["stamp"] + 1)
                if c["k"] == "ext":
                    with open(p, "w") as f:
                        f.write("t%d\n" % st["tok"])
                if os.path.exists(p):
                    os.utime(p, (t, t))
                res["history"].append("<%s %s>" % (c["k"], c["path"]))
                res["checked"] = i + 1
                continue
            typed = bytes(st["typed"])
            res["history"].append(typed.decode())
            recs, exited = s.command(typed)
            rec = recs[-1] if recs and recs[-1].get("ev") == "ex" else None
            field, why = compare(st["exp"], rec, recs, exited)
            res["checked"] = i + 1
            if field:
                res.update(status="mismatch", step=i, field=field, why=why, cmd=c, typed=typed.decode(),
                           expected=st["exp"], recorded=(rec and {k: rec[k] for k in ("ret", "quit", "row")}))
                break
            if st["exp"]["quit"] or exited:
                break
        rc, err, rest = s.finish()
        res["straddled"] = int(time.time()) != s.t0
        if res["status"] == "ok":
            if rc != 0:
                res.update(status="crash", rc=rc, stderr=err[-3000:])
            else:
                last = script["steps"][res["checked"] - 1]
                for p, lines in (last["disk"].items() if isinstance(last["disk"], dict) else []):
                    if lines == [-1]:
                        continue
                    fp = os.path.join(s.work, p)
                    want = "".join("t%d\n" % k for k in lines)
                    have = open(fp).read() if os.path.exists(fp) else None
                    if have != want:
                        res.update(status="mismatch", step=res["checked"] - 1, field="disk", cmd=last["cmd"],
                                   typed=res["history"][-1],
                                   why="file %s: expected %r, found %r" % (p, want, have), expected=last["exp"], recorded=None)
                        break
    finally:
        s.cleanup()
    return res


def gen_bufscripts(ctx, nscripts, nsteps, module="Gen_Bufs", extra=None):
    per = max(1, (nscripts + NCPU - 1) // NCPU)
    jobs = []
    for k in range(0, nscripts, per):
        j = dict(SEED0=(ctx.seed * 977 + k) % 40000 + 1, NSCRIPTS=min(per, nscripts - k), NSTEPS=nsteps)
        j.update(extra or {})
        jobs.append(j)
    out = []
    for job, path in gen_tables(ctx, jobs, module=module):
        out += [json.loads(ln) for ln in open(path)]
    return out


def bufs_check(ctx, own, nscripts, nsteps, mc_consts, rule, assumptions):
    mc_cfg = ctx.path("cfg", "mc_bufs.cfg")
    with open(mc_cfg, "w") as f:
        f.write("SPECIFICATION Spec\nCONSTANTS\n NB = %d\n MaxSteps = %d\n Paths = {\"f1\", \"f2\"}\n"
                "INVARIANT Inv\nPROPERTY ActionProps\nVIEW View\nCHECK_DEADLOCK FALSE\n" % mc_consts)
    mc = tlc_model(ctx, "MC_Bufs", mc_cfg, timeout=6000, heap="16g")
    scripts = gen_bufscripts(ctx, 1, 1, extra={"MODE": "corpus"}) + gen_bufscripts(ctx, nscripts, nsteps)
    # long sessions over 17 and 19 paths: the 16-slot table fills up and the least recently used buffers are revisited and evicted
    scripts += gen_bufscripts(ctx, max(16, nscripts // 8), 2 * nsteps + 20, extra={"NPATHS": 17}) + \
               gen_bufscripts(ctx, max(16, nscripts // 8), 2 * nsteps + 20, extra={"NPATHS": 19})
    for sc in scripts:
        for st in sc["steps"]:
            if not st["thm"]:
                raise Infra("Bufs.tla violates its own properties at seed %s step %r" % (sc["seed"], st["cmd"]))
    ctx.build()
    with ThreadPoolExecutor(NCPU) as ex:
        results = list(ex.map(lambda s: run_bufscript(ctx, s), scripts))
    st = dict(scripts=len(results), commands=0, own=0, other=0, crash=0, own_cmds=0, refusals=0, switches=0)
    for sc, r in zip(scripts, results):
        st["commands"] += r["checked"]
        st["inconclusive_timing"] = st.get("inconclusive_timing", 0) + r.get("inconclusive_timing", 0)
        for s in sc["steps"][:r["checked"]]:
            if ATTR.get(s["cmd"]["k"]) == own:
                st["own_cmds"] += 1
            if s["exp"]["msg"] == "modified":
                st["refusals"] += 1
            if s["cmd"]["k"] in ("b", "e", "n"):
                st["switches"] += 1
            bk = st.setdefault("by_kind", {})
            bk[s["cmd"]["k"]] = bk.get(s["cmd"]["k"], 0) + 1
            if s["cmd"]["k"] in ("n", "wp") and s["exp"]["ret"] == 0:
                st["n_wp_done"] = st.get("n_wp_done", 0) + 1
        if r["status"] == "mismatch":
            k = r["cmd"]["k"]
            prop = ATTR.get(k, own)
            if r["field"] in ("quit", "dirty-unsound", "dirty", "msg") and k in ("e", "b", "n", "q", "wq", "x", "xa", "se", "line"):
                prop = "C02"
            if r["field"] in ("table", "path", "text", "row", "undo") and k in ("e", "b", "n"):
                prop = "C20"
            if own == "C03" and isinstance(r.get("expected"), dict) and r["expected"].get("aw") and k in ("q", "e", "b", "wq", "x", "xa"):
                prop = "C03"        # with autowrite on, leaving a buffer writes it: a divergence there is about the write guards
            if isinstance(r.get("expected"), dict) and r["expected"].get("msg") == "modified":
                prop = "C02"        # the model refuses (unsaved changes): whatever the editor did instead is a matter of C02
            if r["field"] == "disk":
                prop = "C01" if own == "C01" else "C03"
            if prop == own or (own == "C02" and r["field"] == "dirty-unsound"):
                st["own"] += 1
                ctx.violation("after %r (step %d of seed %s, history %s): %s" %
                              (r["typed"], r["step"], r["seed"], r["history"][-5:-1], r["why"]),
                              {k2: r[k2] for k2 in ("seed", "step", "field", "why", "cmd", "typed", "history", "expected", "recorded")},
                              {"kind": "state", "field": r["field"], "cmd": k})
            else:
                st["other"] += 1
                ctx.notes.append("divergence attributed to %s: seed %s %r: %s" % (prop, r["seed"], r["typed"], r["why"])) \
                    if len(ctx.notes) < 10 else None
        elif r["status"] == "crash":
            st["crash"] += 1
            ctx.notes.append("crash (C05) seed %s: %s" % (r["seed"], r.get("stderr", "")[-200:]))
    samples = [{"seed": sc["seed"], "script": r["history"][:14], "commands_compared": r["checked"]}
               for sc, r in list(zip(scripts, results))[:2]]
    cov = {"states": mc["distinct"], "transitions": mc["generated"], "traces_validated_against_impl": len(results),
           "samples": samples, "evaluations": st["commands"], "distinct_nontrivial": st["own_cmds"], "rule": rule,
           "stats": st, "model_scope": "NB=%d MaxSteps=%d, 2 paths + the unnamed buffer" % mc_consts, "model_depth": mc["depth"],
           "explanation": "TLC: MC_Bufs (DirtySound, NoLoss, TableOK, refused commands change no text) exhaustively in the model "
                          "scope; Gen_Bufs behaviours at the real table size typed in lock-step into the traced binary"}
    return ctx.finish("model_checking", cov, assumptions)
