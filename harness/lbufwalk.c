/*
 * M3: replay the labelled state graph of spec/MC_Lbuf.tla through the real
 * lbuf_* interface of the repository (linked against its objects).
 *
 * stdin: per model state   S npath {oplen op...}*  nsucc {oplen op... nlines id... ret dirty}*
 * Each transition (state, op) is executed on a fresh buffer: the path is
 * replayed, the operation is applied and lines, return value and the answer of
 * lbuf_modified() are compared with the model's successor.
 */
#include <stdio.h>
#include <stdlib.h>
#include <string.h>
#include "vi.h"

#define MAXOP	8
#define MAXPATH	64

static int nid;
static int rendering;	/* how a model line identity becomes text */

/*
 * rendering 0: "L<id>"                      every line distinct
 * rendering 1: 'x' repeated (9 - id) times  later lines are proper prefixes of earlier ones
 * rendering 2: "a" / "b" by parity          many identical lines
 * The last line of an inserted block is passed without its newline in renderings 1 and 2
 * (lbuf_replace() supplies it).
 */
static void linetext(char *dst, int id)
{
	int i;
	if (rendering == 1) {
		for (i = 0; i < 9 - id && i < 20; i++)
			dst[i] = 'x';
		dst[i < 0 ? 0 : i] = '\0';
	} else if (rendering == 2) {
		sprintf(dst, "%c", id % 2 ? 'a' : 'b');
	} else {
		sprintf(dst, "L%d", id);
	}
}

static int rd(void)
{
	int x;
	if (scanf("%d", &x) != 1)
		exit(3);
	return x;
}

static void readop(int *op)
{
	int i;
	op[0] = rd();
	if (op[0] >= MAXOP)
		exit(3);
	for (i = 0; i < op[0]; i++)
		op[1 + i] = rd();
}

/* apply one call; returns its return value (0 for void calls) */
static int apply(int *op)
{
	char text[256];
	int i;
	switch (op[1]) {
	case 1:		/* edit beg end k nonnull */
		text[0] = '\0';
		for (i = 0; i < op[4]; i++) {
			linetext(text + strlen(text), nid++);
			if (!rendering || i + 1 < op[4])
				strcat(text, "\n");
		}
		lbuf_edit(xb, op[5] ? text : NULL, op[2], op[3]);
		return 0;
	case 2:
		return lbuf_undo(xb);
	case 3:
		return lbuf_redo(xb);
	case 4:
		return lbuf_modified(xb);
	case 5:
		lbuf_saved(xb, op[2]);
		return 0;
	}
	exit(3);
}

static void fresh(void)
{
	ex_command("b !");	/* drops the current buffer and creates a new unnamed one */
	nid = 1;
}

static void printop(int *op)
{
	int i;
	printf("[");
	for (i = 0; i < op[0]; i++)
		printf("%s%d", i ? "," : "", op[1 + i]);
	printf("]");
}

int main(int argc, char *argv[])
{
	static int path[MAXPATH][MAXOP + 1];
	int op[MAXOP + 1];
	int exp[64];
	char *files[] = {NULL};
	long transitions = 0, mismatch = 0, states = 0;
	int c;
	rendering = argc > 1 ? atoi(argv[1]) : 0;
	dir_init();
	syn_init();
	if (ex_init(files))
		return 3;
	while ((c = getchar()) != EOF) {
		int npath, nsucc, i, j, k;
		if (c != 'S')
			continue;
		npath = rd();
		if (npath > MAXPATH)
			return 3;
		for (i = 0; i < npath; i++)
			readop(path[i]);
		nsucc = rd();
		states++;
		for (j = 0; j < nsucc; j++) {
			int nl, ret, dirty, eret, edirty, bad = 0;
			readop(op);
			nl = rd();
			for (k = 0; k < nl; k++)
				exp[k] = rd();
			eret = rd();
			edirty = rd();
			fresh();
			for (i = 0; i < npath; i++)
				apply(path[i]);
			ret = apply(op);
			if (lbuf_len(xb) != nl)
				bad = 1;
			for (k = 0; !bad && k < nl; k++) {
				char want[64];
				linetext(want, exp[k]);
				strcat(want, "\n");
				if (!lbuf_get(xb, k) || strcmp(want, lbuf_get(xb, k)))
					bad = 1;
			}
			if (ret != eret)
				bad = 1;
			dirty = lbuf_modified(xb);
			if (dirty != edirty)
				bad = 1;
			transitions++;
			if (bad && mismatch++ < 20) {
				printf("{\"mismatch\":1,\"path\":[");
				for (i = 0; i < npath; i++) {
					printf("%s", i ? "," : "");
					printop(path[i]);
				}
				printf("],\"op\":");
				printop(op);
				printf(",\"exp\":{\"lines\":[");
				for (k = 0; k < nl; k++)
					printf("%s%d", k ? "," : "", exp[k]);
				printf("],\"ret\":%d,\"dirty\":%d},\"got\":{\"lines\":[", eret, edirty);
				for (k = 0; k < lbuf_len(xb); k++) {
					char *s = lbuf_get(xb, k);
					printf("%s\"%.*s\"", k ? "," : "", (int) strlen(s) - 1, s);
				}
				printf("],\"ret\":%d,\"dirty\":%d}}\n", ret, dirty);
			}
		}
	}
	printf("{\"done\":1,\"states\":%ld,\"transitions\":%ld,\"mismatch\":%ld}\n",
		states, transitions, mismatch);
	return 0;
}
