"""A Python rendition of the terminal of spec/Term.tla (ApplyOp only).  It is a search aid for shrinking C19 replays: a
key stream `goes wrong' when the text rows before and after a final ^L differ.  Verdicts always come from TLC / TraceTerm."""
import unicodedata


def wid(cp):
    c = chr(cp)
    if unicodedata.combining(c) or unicodedata.category(c) in ("Mn", "Me", "Cf"):
        return 0
    return 2 if unicodedata.east_asian_width(c) in ("W", "F") else 1


class Term:
    def __init__(self, R, C):
        self.R, self.C = R, C
        self.g = [[32] * C for _ in range(R)]
        self.r = self.c = 0
        self.top, self.bot = 0, R - 1

    def apply(self, ops):
        for op in ops:
            k = op[0]
            if k == "text":
                for cp in op[1]:
                    w = wid(cp)
                    if w == 0 or self.c + w > self.C:
                        continue
                    self.g[self.r][self.c] = cp
                    if w == 2:
                        self.g[self.r][self.c + 1] = -1
                    self.c += w
            elif k == "cup":
                self.r, self.c = min(max(op[1], 0), self.R - 1), min(max(op[2], 0), self.C - 1)
            elif k == "cr":
                self.c = 0
            elif k == "lf":
                if self.r == self.bot:
                    del self.g[self.top]
                    self.g.insert(self.bot, [32] * self.C)
                else:
                    self.r = min(self.r + 1, self.R - 1)
            elif k == "cuf":
                self.c = min(min(self.c, self.C - 1) + max(op[1], 1), self.C - 1)
            elif k == "cub":
                self.c = max(min(self.c, self.C - 1) - max(op[1], 1), 0)
            elif k == "el":
                for j in range(self.c, self.C):
                    self.g[self.r][j] = 32
            elif k in ("il", "dl") and self.top <= self.r <= self.bot:
                n = min(max(op[1], 1), self.bot - self.r + 1)
                for _ in range(n):
                    if k == "il":
                        del self.g[self.bot]
                        self.g.insert(self.r, [32] * self.C)
                    else:
                        del self.g[self.r]
                        self.g.insert(self.bot, [32] * self.C)
                self.c = 0
            elif k == "stbm":
                self.top = 0 if op[1] == 0 else op[1] - 1
                self.bot = self.R - 1 if op[2] == 0 else min(op[2] - 1, self.R - 1)
                self.r = self.c = 0


def stale_rows(recs, R, C):
    """recs of a session whose keys end in ^L: the text rows that differ between the last boundary before ^L and after it"""
    t = Term(R, C)
    snaps = []
    for r in recs:
        if r["ev"] == "tty":
            t.apply(r["ops"])
        elif r["ev"] == "vi":
            snaps.append(([row[:] for row in t.g], r.get("rows", R - 1)))
    if len(snaps) < 3:
        return []
    (a, rows), (b, _) = snaps[-3], snaps[-2]      # before ^L was read, after it was executed (the last record is the quit)
    return [k for k in range(rows) if a[k] != b[k]]
