"""Lexes the bytes neatvi wrote to its terminal into the control functions of spec/Term.tla.
The set is closed: anything else is reported as ("unknown", ...) and makes the trace invalid."""


def lex(data):
    ops = []
    text = []
    i, n = 0, len(data)

    def flush():
        if text:
            ops.append(["text", list(text)])
            del text[:]
    while i < n:
        b = data[i]
        if b == 0x1b:
            flush()
            if i + 1 < n and data[i + 1] == 0x5b:     # CSI
                j = i + 2
                while j < n and (0x30 <= data[j] <= 0x3f):
                    j += 1
                if j >= n:
                    ops.append(["unknown", 0, 0])
                    break
                params = data[i + 2:j].decode("ascii")
                final = chr(data[j])
                nums = [int(x) if x.isdigit() else 0 for x in params.split(";")] if params else []
                if final == "H":
                    ops.append(["cup", (nums[0] if nums else 1) - 1, (nums[1] if len(nums) > 1 else 1) - 1])
                elif final == "K":
                    ops.append(["el", 0, 0])
                elif final == "L":
                    ops.append(["il", nums[0] if nums else 1, 0])
                elif final == "M":
                    ops.append(["dl", nums[0] if nums else 1, 0])
                elif final == "C":
                    ops.append(["cuf", nums[0] if nums else 1, 0])
                elif final == "D":
                    ops.append(["cub", nums[0] if nums else 1, 0])
                elif final == "r":
                    ops.append(["stbm", nums[0] if nums else 0, nums[1] if len(nums) > 1 else 0])
                elif final == "m":
                    ops.append(["sgr", 0, 0])
                else:
                    ops.append(["unknown", ord(final), 0])
                i = j + 1
            else:
                ops.append(["unknown", data[i + 1] if i + 1 < n else 0, 0])
                i += 2
        elif b == 0x0d:
            flush()
            ops.append(["cr", 0, 0])
            i += 1
        elif b == 0x0a:
            flush()
            ops.append(["lf", 0, 0])
            i += 1
        elif b < 0x20 or b == 0x7f:
            flush()
            ops.append(["unknown", b, 0])
            i += 1
        else:
            # one UTF-8 character
            ln = 1 if b < 0x80 else 2 if b < 0xe0 else 3 if b < 0xf0 else 4
            try:
                text.append(ord(data[i:i + ln].decode("utf-8")))
            except (UnicodeDecodeError, TypeError):
                flush()
                ops.append(["unknown", b, 0])
                ln = 1
            i += ln
    flush()
    return ops
