"""Running a probe program over a list of requests with crash isolation."""
import os, subprocess
from common import ASAN_ENV, Infra


def run_probe(exe, requests, args=(), cwd=None, timeout=1800, env_extra=None, skipkey=None):
    """requests: list of str lines. Returns list of (response str | None, crashinfo | None)."""
    out = [None] * len(requests)
    crash = [None] * len(requests)
    env = dict(os.environ)
    env.update(ASAN_ENV)
    env.pop("NEATVI_VERIF_TRACE", None)
    env.update(env_extra or {})
    start = 0
    restarts = 0
    dead = set()        # keys of requests that killed the probe: later requests with the same key are skipped
    while start < len(requests):
        if skipkey and dead:
            idx = [i for i in range(start, len(requests)) if skipkey(requests[i]) not in dead]
            for i in range(start, len(requests)):
                if skipkey(requests[i]) in dead:
                    crash[i] = {"rc": None, "stderr": "skipped: an earlier request with the same key killed the probe", "skipped": True}
            return _run_indexed(exe, requests, idx, out, crash, args, cwd, timeout, env, skipkey, dead, restarts)
        data = "\n".join(requests[start:]) + "\n"
        p = subprocess.run(["timeout", str(timeout), exe] + list(args), input=data, capture_output=True,
                           text=True, env=env, cwd=cwd, errors="replace")
        lines = p.stdout.split("\n")
        if lines and lines[-1] == "":
            lines.pop()
        n = min(len(lines), len(requests) - start)
        for i in range(n):
            out[start + i] = lines[i]
        if n == len(requests) - start:
            break
        # the process died while working on request start + n
        crash[start + n] = {"rc": p.returncode, "stderr": p.stderr[-3000:]}
        if skipkey:
            dead.add(skipkey(requests[start + n]))
        start = start + n + 1
        restarts += 1
        if restarts > 200:
            raise Infra("probe %s keeps dying: %s" % (exe, p.stderr[-2000:]))
    return out, crash


def _run_indexed(exe, requests, idx, out, crash, args, cwd, timeout, env, skipkey, dead, restarts):
    """continue over the request indices idx, skipping keys that killed the probe"""
    while idx:
        data = "\n".join(requests[i] for i in idx) + "\n"
        p = subprocess.run(["timeout", str(timeout), exe] + list(args), input=data, capture_output=True,
                           text=True, env=env, cwd=cwd, errors="replace")
        lines = p.stdout.split("\n")
        if lines and lines[-1] == "":
            lines.pop()
        n = min(len(lines), len(idx))
        for k in range(n):
            out[idx[k]] = lines[k]
        if n == len(idx):
            break
        crash[idx[n]] = {"rc": p.returncode, "stderr": p.stderr[-3000:]}
        dead.add(skipkey(requests[idx[n]]))
        rest = []
        for i in idx[n + 1:]:
            if skipkey(requests[i]) in dead:
                crash[i] = {"rc": None, "stderr": "skipped: an earlier request with the same key killed the probe", "skipped": True}
            else:
                rest.append(i)
        idx = rest
        restarts += 1
        if restarts > 2000:
            raise Infra("probe %s keeps dying: %s" % (exe, p.stderr[-2000:]))
    return out, crash
