#!/usr/bin/env python3
"""Regenerates MANIFEST.json from the table below (python3 harness/manifest.py)."""
import json, os
V = os.path.dirname(os.path.dirname(os.path.abspath(__file__)))

CHECKS = {
    "C04": dict(
        level="model_checking",
        text="TLC explores every call sequence of the line-buffer interface in a small scope against UndoExact/"
             "RedoExact/EndsFail/GhostMatches/DirtySound, and the complete labelled state graph of that model is "
             "replayed transition by transition through the real lbuf_* functions; editor-level undo ghost stacks "
             "are checked on recorded ex/vi traces.",
        design="8/C04",
        note="Trusted: TLC, the JSON dump of the state graph, lbufwalk.c's comparison loop. Bounded scope "
             "(<= 3 lines, log <= 4, <= 4 command boundaries) at the interface; editor level is sampled.",
        technique="TLA+ model (Lbuf.tla) checked by TLC; state-graph replay into lbuf.c; trace validation"),
}

NOT_YET = {}

def main():
    props = [json.loads(l) for l in open(os.path.join(V, "properties.jsonl"))]
    checks, na = [], []
    for p in props:
        pid = p["id"]
        if pid in CHECKS:
            c = CHECKS[pid]
            checks.append({
                "property_id": pid,
                "quick_cmd": "bin/check %s --tier quick" % pid,
                "thorough_cmd": "bin/check %s --tier thorough" % pid,
                "evidence_file": "evidence/%s.json" % pid,
                "replay_cmd_template": "bin/check %s --replay {path}" % pid,
                "engine": "tlc+conformance",
                "level_claimed": {"category": c["level"], "text": c["text"], "design_ref": c["design"]},
                "level_note": c["note"],
                "technique": c["technique"],
            })
        else:
            na.append({"property_id": pid, "reason": NOT_YET.get(pid, "check not built yet at this commit (construction order: DESIGN.md section 12)")})
    m = {
        "version": 1,
        "setup_cmd": "bin/setup",
        "hooks": {
            "guard": "NEATVI_VERIF",
            "enable": "make CC=clang CFLAGS='-DNEATVI_VERIF -g -O1 -fsanitize=address,undefined -fno-sanitize=nonnull-attribute' LDFLAGS='-fsanitize=address,undefined' (done by harness/common.py on a scratch copy of /repo's working tree)",
            "baseline_off_cmd": "cd /repo && make clean >/dev/null && make >/dev/null && sh test.sh",
            "source_commits": [l.split()[0] for l in os.popen("git -C /repo log --format='%h %s' | grep ' verif:'").read().splitlines()],
            "add_only": True,
        },
        "engines": [{"name": "tlc+conformance", "path": "bin/check",
                     "serves_properties": [c["property_id"] for c in checks],
                     "kind_free_text": "explicit TLA+ specification (spec/*.tla) model-checked by TLC; bound to the C code by state-graph replay, TLC-generated case tables run through probes linked with the repository's objects, and trace validation of hook records"}],
        "checks": checks,
        "not_applicable": na,
        "notes": "See DESIGN.md. Exit codes: 0 ok, 1 violation (VIOLATION lines), 2 infrastructure error.",
    }
    json.dump(m, open(os.path.join(V, "MANIFEST.json"), "w"), indent=1)

if __name__ == "__main__":
    main()
