#!/usr/bin/env python3
"""Regenerates MANIFEST.json from the table below (python3 harness/manifest.py)."""
import json, os
V = os.path.dirname(os.path.dirname(os.path.abspath(__file__)))

CHECKS = {
    "C04": dict(
        level="model_checking",
        text="TLC explores every call sequence of the line-buffer interface in a small scope against UndoExact/"
             "RedoExact/EndsFail/GhostMatches/DirtySound, and the complete labelled state graph of that model is "
             "replayed transition by transition through the real lbuf_* functions; editor-level undo ghost stacks "
             "are checked on recorded ex/vi traces.",
        design="8/C04",
        note="Trusted: TLC, the JSON dump of the state graph, lbufwalk.c's comparison loop. Bounded scope "
             "(<= 3 lines, log <= 4, <= 4 command boundaries) at the interface; editor level is sampled.",
        technique="TLA+ model (Lbuf.tla) checked by TLC; state-graph replay into lbuf.c; trace validation"),
}

CHECKS["C10"] = dict(
    level="model_checking",
    text="TLC evaluates the reference semantics of Regex.tla (parser, engine-ordered parses with captures, pattern-set "
         "layer) on every token sequence up to a size x every short line x all 8 flag combinations, checks inside the "
         "spec that the ordered choice is a member of the declarative language and starts leftmost, and the expected "
         "found/set-index/span/group spans are compared with rset_make/rset_find of the repository's objects; the "
         "depth-limit hook decides where completeness is required.",
    design="8/C10", technique="TLA+ reference matcher evaluated exhaustively by TLC; case tables replayed into rset.c/regex.c (M2)",
    note="Trusted: TLC's evaluator, JSON case tables, reprobe.c, UTF-8 re-encoding in regexlib.py. Exhaustive only up to "
         "the stated pattern/line sizes; longer patterns are a seeded sample.")
CHECKS["C11"] = dict(
    level="model_checking",
    text="ParseRe/CountEst/EmitLen of Regex.tla are evaluated by TLC on every symbol string up to a length (plus seeded "
         "longer and random strings); accept/reject and the reserved/used program sizes recorded by the regcomp hook "
         "must equal the spec's, and every compiled pattern is matched against a family of lines on an ASan/UBSan "
         "build with a time limit: offsets in bounds and on character boundaries.",
    design="8/C11", technique="TLA+ transcription of the regex parser and size estimate checked by TLC; ASan probe (M2)",
    note="Memory errors are observed through the sanitizer, not the spec. Known finding KF-nullable-loop (catastrophic "
         "backtracking) is replayed from a corpus on every run.")
CHECKS["C12"] = dict(
    level="model_checking",
    text="For 16 anchor combinations x all short literals x all short lines x 8 flags, TLC computes both the "
         "transcription of the literal fast path (SimpleFind) and the general reference; rstr_find and rset_find of "
         "the repository are compared with both and with each other, groups poisoned; the classifier is checked on "
         "every short operator string, and every operator-bearing pattern that the reference parser refuses must be refused by rstr_make too "
         "(never searched as a literal piece).",
    design="8/C12", technique="TLA+ fast-path transcription vs general reference in TLC; rstr.c vs rset.c vs spec (M2)",
    note="Lines are newline-terminated as every caller guarantees; comparisons with a fired depth counter are discarded.")

CHECKS["C16"] = dict(
    level="model_checking",
    text="Utf8.tla defines every helper declaratively over code points and transcribes uc.c over bytes; TLC checks "
         "Laws (agreement, next/prev and offset round trips, substring concatenation) on every string up to a length "
         "over a boundary alphabet and writes the expected result of every helper at every offset, which ucprobe.c "
         "compares with uc_*; a dump of uc_len/uc_code/regex decoding for the scalar values is validated by TLC.",
    design="8/C16", technique="TLA+ model of UTF-8 arithmetic checked by TLC; case tables and dumps bound to uc.c (M2)",
    note="Quick tier covers boundary and strided code points, thorough all 1.1 M. The editing clause is checked by the "
         "scalar-value invariant of Gen_Ex!Thm plus the text comparison of C06/C14/C15 on multi-byte scripts.")
for _p, _t in (("C06", "line commands and addresses: a i c d y pu p = k rs, bare addresses, :r file, :range!filter, :@ register execution, u / redo"), ("C14", "substitute"), ("C15", "global: g / v / g! with lists of d s pu a i c (also +1c: typed text is never visited) p y k, relative addresses, deletions in front of the visited line followed by a move forward (the lowest marked line is next), aborting lists, nested globals")):
    CHECKS[_p] = dict(
        level="model_checking",
        text="Ex.tla gives every ex command one meaning (ExStep) over abstract text; Gen_Ex.tla builds seeded scripts "
             "command by command from the model state (profile: %s), TLC evaluates the spec's own properties on every "
             "line (rejection leaves text alone, one undo step per prompt line incl. a whole global, redo inverse) and "
             "writes the expected state after every prompt line; the scripts are typed into the traced vi -s -e and text, "
             "current line, output, registers, marks and status are compared line by line. C06 also enumerates every sequence of two "
             "(thorough: three) prompt lines over 31 fixed command lines from a three-line buffer." % _t,
        design="8/" + _p, technique="TLA+ reference editor (Ex.tla) evaluated by TLC; behaviours replayed into the traced binary (M1)",
        note="Sampled behaviours (seeded), not exhaustive. Known deviations are recognised only when the recorded state "
             "equals the operational transcription kept in the spec (Ex!SubCode).")

for _p, _t in (("C02", "quit / edit / buffer refusals, modified-flag soundness, no silent loss"),
               ("C20", "isolation of buffers across switches, no re-read of an open path")):
    CHECKS[_p] = dict(
        level="model_checking",
        text="Bufs.tla models the buffer table (MRU order, 16 slots as a parameter), files with modification stamps, the "
             "per-buffer undo log and sequence numbers (Lbuf.tla) and every command that reads, writes or leaves a buffer; "
             "TLC checks DirtySound, NoLoss, TableOK and refusal rules exhaustively in a small scope (MC_Bufs) and on every "
             "step of seeded behaviours, which are typed in lock-step into the traced vi -s -e with external file events "
             "performed by the driver; table, text, modified flag, undo position, current line, status, message class and the "
             "files on disk are compared (%s)." % _t,
        design="8/" + _p, technique="TLA+ model (Bufs.tla) checked by TLC; behaviours replayed in lock-step into the traced binary (M1)",
        note="Model scope NB=2..3 exhaustively; conformance sampled at NB=16. Text of non-current buffers is compared by "
             "length and hash. A session that straddles a wall-clock second is re-run (file times have 1 s granularity).")

CHECKS["C01"] = dict(
    level="model_checking",
    text="MC_FileIO.tla models the write path of lbuf_wr (batching, direct writes, write_fully with every short count, final "
         "flush, ftruncate over a longer target), the read loop and the string-buffer capacity rule, parametric in batch, chunk "
         "and quantum, and is explored exhaustively at small constants together with the Split/Join laws on all byte strings "
         "<= 6; the same length shapes are instantiated at the real constants and read/written by the traced binary under the "
         "syscall shim: result bytes, recorded line/byte counts, the sum of the write calls and the ftruncate length.",
    design="8/C01", technique="TLA+ state machine of the I/O paths checked by TLC; boundary shapes replayed at the real constants (M1+M4)",
    note="The model is bound to lbuf.c by the shapes and by the logged call totals, not instruction by instruction; how bytes "
         "are batched is deliberately not prescribed. NUL bytes are outside the property.")
CHECKS["C03"] = dict(
    level="fault_enumeration",
    text="For 4 buffer sizes x 5 write/quit commands the shim records the open/write/ftruncate/close sequence and then "
         "fails every position with every error kind and cuts every write short; status, message, modified flag, undo "
         "position, a following refused :q, a forced retry and the final file must equal Bufs!Step for the failure class. "
         "Guards against foreign and newer files come from Gen_Bufs behaviours with files touched and rewritten between "
         "commands; MC_Bufs model-checks the same rules.",
    design="8/C03", technique="fault enumeration at every syscall position against the TLA+ model Bufs.tla (M1+M4); TLC on MC_Bufs",
    note="A failing ftruncate and write returning 0 are outside the property's fault set. File times are driven 1000 s apart.")

CHECKS["C17"] = dict(
    level="model_checking",
    text="Layout.tla assigns columns in visual order from the width classes of the tables of the tree under test and "
         "transcribes ren_pos / ren_off / ren_cursor / ren_next / ren_noeol; TLC checks Tiling and RoundTrip on every line up "
         "to a length over class representatives under option combinations and writes the expected arrays for renprobe.c; "
         "uc_wid / uc_isbell / uc_iscomb of the code points are dumped and validated by TLC against linear table membership, "
         "after checking that the tables are sorted and disjoint.",
    design="8/C17", technique="TLA+ layout model evaluated exhaustively by TLC; case tables and dumps bound to ren.c / uc.c (M2)",
    note="Width classes are those the tables of uc.c list (regenerated into UcTables.tla per run); terminal agreement is assumed.")
CHECKS["C18"] = dict(
    level="model_checking",
    text="Layout.tla defines base direction, opposite-direction runs over character classes (independently of the regex "
         "engine dir.c uses) and Reorder; TLC checks permutation and identity laws and writes the expected visual order for "
         "every line up to a length under every textdirection; shaping is specified over the presentation forms of the "
         "Unicode character database for 45 letters x neighbours x diacritics; renprobe.c calls dir_context, dir_reorder, uc_shape.",
    design="8/C18", technique="TLA+ bidi / shaping model evaluated exhaustively by TLC; case tables bound to dir.c / uc.c (M2)",
    note="Lines containing the characters of the configured direction marks are checked for the permutation property only. "
         "Alef maksura is taken as right-joining (Arabic / Persian usage).")

for _p, _t in (("C07", "cursor motions"), ("C08", "operators, inserts, puts, registers"), ("C13", "searches")):
    CHECKS[_p] = dict(
        level="model_checking",
        text="Vi.tla gives every command of visual mode one meaning (ViCmd) over the text and registers of Ex.tla, with columns "
             "from Layout.tla: motions as scanners over character kinds, regions (exclusive / inclusive / line-wise), the fold of "
             "insert-mode keys with autoindent, puts, joins, replaces, the searches with whole-line context; Gen_Vi.tla builds seeded "
             "key sequences from the model state (%s), TLC evaluates the spec's own properties on every command (cursor on an "
             "existing character, motions leave the text alone) and writes the expected state; the keys are typed into the traced "
             "vi -v and text, cursor, sticky column and registers are compared at every command boundary. C07 / C08 also enumerate "
             "every command of a fixed list (motions with counts; operator x motion x count, edits, inserts) from every cursor "
             "position of small buffers (profile exh)." % _t,
        design="8/" + _p, technique="TLA+ reference of visual mode (Vi.tla) evaluated by TLC; behaviours replayed into the traced binary (M1)",
        note="Sampled behaviours (seeded) plus exhaustive single steps in a small scope. Window 23x80 with buffers that fit, so H M L do not depend on scrolling policy. Known "
             "deviations are recognised only when the recorded state equals the operational transcription kept in the spec and the "
             "pattern has a word-boundary anchor.")

CHECKS["C09"] = dict(
    level="model_checking",
    text="Gen_Vi.tla models the input queue as it is: '.' appends max(N,1) copies of the keys of the last repeatable command, "
         "'@r' copies of the register, and queued keys are consumed command by command before anything typed; every command "
         "taken from the queue is checked with the same Vi!ViCmd as a typed one. Three bindings against the traced vi -v: the "
         "push-back records carry exactly the expected keys; the state after every queued command equals the model's; and the "
         "two-run relation: the script and its expansion (every . and @ replaced by the keys it stands for) end in the same text, "
         "cursor and registers.",
    design="8/C09", technique="TLA+ model of repeat / macro queue (Gen_Vi.tla over Vi.tla) evaluated by TLC; replay and two-run relation (M1)",
    note="A . or @ inside an executing macro is not generated (known nesting behaviour: keys are appended after the rest).")

CHECKS["C19"] = dict(
    level="model_checking",
    text="Term.tla is a terminal state machine over a grid of cells with one action per control function the editor emits and "
         "Render, what a repaint of a window shows. TraceTerm.tla consumes, in program order, the control functions lexed from "
         "the bytes the traced vi -v wrote and the editor state recorded at every command boundary; TLC validates the trace: at "
         "every boundary every row of the window equals Render of the recorded lines / top / left, the cursor line is inside the "
         "window and the terminal cursor is on the cell of the cursor character. Completeness by the diameter postcondition.",
    design="8/C19", technique="TLA+ terminal model; TLC trace validation of the recorded tty stream against the recorded editor state (M1)",
    note="Only the active window (also when the screen is split in two by ^Ws: the window that was left is not constrained), left-to-right base direction; status row and attributes are not compared; terminal widths are "
         "assumed to agree with the editor's tables. The lexer (ttylex.py) is trusted; unknown sequences fail the trace.")

CHECKS["C05"] = dict(
    level="model_checking",
    text="Command streams - the behaviours TLC generates from Ex.tla and Vi.tla, the 60 repository test scripts, mutations of both "
         "(truncation, deletion, duplication, transposition, spliced out-of-range addresses, huge counts, unknown commands, runs around and "
         "beyond the 512-byte command limit, wide / combining / right-to-left text) and nonsense streams from the token vocabulary - run on "
         "the ASan+UBSan traced binary under sampled windows (2x2 .. 50x132), initial files and EXINIT option settings; each must reach its "
         "quit command (complete trace, exit 0, no sanitizer report, time bound). The recorded states are validated by TLC against "
         "TraceInv.tla: valid UTF-8 lines, well-formed buffer table, undo cursor inside the log, cursor on an existing character and inside "
         "the window at every vi command boundary. Exhaustive small-scope corpora run with them: every command of the ex command table x 15 arguments x "
         "addresses (in ex mode and at the prompt of visual mode, in the unnamed buffer and in a named one with an alternate), every two-key "
         "vi command (24 prefix keys x bytes 1..126), every option at ten extreme values followed by an exercise stream, autoindent sums around "
         "the 128-byte buffer, the inputs of the repaired defects.",
    design="8/C05", technique="TLC-generated and mutated command streams on a sanitizer build; TLC trace validation of recorded states against TraceInv.tla",
    note="Sampled, not exhaustive: absence of memory errors is established for the executed streams only. Shell-outs run a stub filter; "
         "^Z is removed; work proportional to a typed count of 10^8 or more is inconclusive rather than a hang; signed arithmetic wraps "
         "(-fwrapv). The nullable-loop hang of the matcher is a known finding (one corpus stream replays it; streams containing such "
         "patterns are set aside).")

NOT_YET = {}

def main():
    props = [json.loads(l) for l in open(os.path.join(V, "properties.jsonl"))]
    checks, na = [], []
    for p in props:
        pid = p["id"]
        if pid in CHECKS:
            c = CHECKS[pid]
            checks.append({
                "property_id": pid,
                "quick_cmd": "bin/check %s --tier quick" % pid,
                "thorough_cmd": "bin/check %s --tier thorough" % pid,
                "evidence_file": "evidence/%s.json" % pid,
                "replay_cmd_template": "bin/check %s --replay {path}" % pid,
                "engine": "tlc+conformance",
                "level_claimed": {"category": c["level"], "text": c["text"], "design_ref": c["design"]},
                "level_note": c["note"],
                "technique": c["technique"],
            })
        else:
            na.append({"property_id": pid, "reason": NOT_YET.get(pid, "check not built yet at this commit (construction order: DESIGN.md section 12)")})
    m = {
        "version": 1,
        "setup_cmd": "bin/setup",
        "hooks": {
            "guard": "NEATVI_VERIF",
            "enable": "make CC=clang CFLAGS='-DNEATVI_VERIF -g -O1 -fsanitize=address,undefined -fno-sanitize=nonnull-attribute -fwrapv' LDFLAGS='-fsanitize=address,undefined' (done by harness/common.py on a scratch copy of /repo's working tree)",
            "baseline_off_cmd": "cd /repo && make clean >/dev/null && make >/dev/null && sh test.sh",
            "source_commits": [l.split()[0] for l in os.popen("git -C /repo log --format='%h %s' | grep ' verif:'").read().splitlines()],
            "add_only": True,
        },
        "engines": [{"name": "tlc+conformance", "path": "bin/check",
                     "serves_properties": [c["property_id"] for c in checks],
                     "kind_free_text": "explicit TLA+ specification (spec/*.tla) model-checked by TLC; bound to the C code by state-graph replay, TLC-generated case tables run through probes linked with the repository's objects, and trace validation of hook records"}],
        "checks": checks,
        "not_applicable": na,
        "notes": "See DESIGN.md. Exit codes: 0 ok, 1 violation (VIOLATION lines), 2 infrastructure error.",
    }
    json.dump(m, open(os.path.join(V, "MANIFEST.json"), "w"), indent=1)

if __name__ == "__main__":
    main()
