/*
 * M2 probe for the regular-expression layer: evaluates rset_*, rstr_* of the
 * repository (linked objects) on requests read from stdin, one per line:
 *
 *   M ic nb ne ngrp npat hexpat... hexline    pattern set via rset_make/rset_find
 *   S ic nb ne ngrp 1 hexpat hexline          single pattern via rstr_make/rstr_find
 *
 * Response, one line per request, flushed:
 *   E                                   compilation refused
 *   r ret cuts alloc used so eo ...     ret: set index (M) or 0/-1 (S); 2*ngrp offsets (poison 777 kept if untouched)
 *   T                                   no answer within the time limit
 */
#include <setjmp.h>
#include <signal.h>
#include <stdio.h>
#include <stdlib.h>
#include <string.h>
#include <unistd.h>
#include "vi.h"
#include "verif.h"

#define MAXPAT	96
#define POISON	777

static sigjmp_buf jb;

static void onalarm(int sig)
{
	siglongjmp(jb, 1);
}

static char *unhex(char *h)
{
	int n = strlen(h) / 2, i;
	char *s = malloc(n + 1);
	if (h[0] == '-')	/* "-" encodes the empty string */
		n = 0;
	for (i = 0; i < n; i++) {
		unsigned x;
		sscanf(h + 2 * i, "%2x", &x);
		s[i] = x;
	}
	s[n] = '\0';
	return s;
}

int main(int argc, char *argv[])
{
	static char ln[1 << 20];
	int limit = argc > 1 ? atoi(argv[1]) : 5;
	signal(SIGALRM, onalarm);
	while (fgets(ln, sizeof(ln), stdin)) {
		char *tok[16 + MAXPAT];
		char *pat[MAXPAT];
		char *line;
		int grps[64];
		int nt = 0, i, ic, nb, ne, ng, np, flg, ret;
		char *s = strtok(ln, " \n");
		while (s && nt < 16 + MAXPAT) {
			tok[nt++] = s;
			s = strtok(NULL, " \n");
		}
		if (nt < 8)
			continue;
		ic = atoi(tok[1]);
		nb = atoi(tok[2]);
		ne = atoi(tok[3]);
		ng = atoi(tok[4]);
		np = atoi(tok[5]);
		if (np > MAXPAT || ng > 32 || nt != 7 + np)
			return 3;
		for (i = 0; i < np; i++)
			pat[i] = unhex(tok[6 + i]);
		line = unhex(tok[6 + np]);
		flg = (nb ? RE_NOTBOL : 0) | (ne ? RE_NOTEOL : 0);
		for (i = 0; i < 64; i++)
			grps[i] = POISON;
		verif_re_cuts = 0;
		verif_re_alloc = 0;
		verif_re_used = 0;
		if (sigsetjmp(jb, 1)) {
			printf("T\n");
			fflush(stdout);
			continue;
		}
		alarm(limit);
		if (tok[0][0] == 'M') {
			struct rset *rs = rset_make(np, pat, ic ? RE_ICASE : 0);
			if (!rs) {
				alarm(0);
				printf("E\n");
			} else {
				ret = rset_find(rs, line, ng, grps, flg);
				alarm(0);
				printf("r %d %d %d %d", ret, verif_re_cuts, verif_re_alloc, verif_re_used);
				for (i = 0; i < 2 * ng; i++)
					printf(" %d", grps[i]);
				printf("\n");
				rset_free(rs);
			}
		} else {
			struct rstr *rs = rstr_make(pat[0], ic ? RE_ICASE : 0);
			if (!rs) {
				alarm(0);
				printf("E\n");
			} else {
				ret = rstr_find(rs, line, ng, grps, flg);
				alarm(0);
				printf("r %d %d %d %d", ret, verif_re_cuts, verif_re_alloc, verif_re_used);
				for (i = 0; i < 2 * ng; i++)
					printf(" %d", grps[i]);
				printf("\n");
				rstr_free(rs);
			}
		}
		fflush(stdout);
		for (i = 0; i < np; i++)
			free(pat[i]);
		free(line);
	}
	return 0;
}
