"""Shared by C10, C11, C12: TLC case tables from spec/Gen_Regex.tla, executed on
the repository's rset_* / rstr_* through harness/reprobe.c."""
import json, os, subprocess, random
from concurrent.futures import ThreadPoolExecutor
from common import *
from probe import run_probe

NT = 21          # tokens of Gen_Regex!Tokens
NG = 4           # groups requested
POISON = 777


def count_upto(ntok):
    return sum(NT ** i for i in range(ntok + 1))


def gen_tables(ctx, jobs, module="Gen_Regex", timeout=1500):
    """jobs: list of env dicts (MODE, LO, HI, LMAX, ...); one TLC process each, NCPU at a time.
    Returns list of (job, path)."""
    def one(ij):
        i, job = ij
        out = ctx.path("gen", "%s_%d.ndjson" % (module, i))
        env = {k: str(v) for k, v in job.items()}
        env["OUT"] = out
        r = tlc(ctx, module, os.path.join(SPEC, "Gen.cfg"), env=env, workers=1, timeout=timeout, heap="3g")
        if not r["ok"] or not os.path.exists(out):
            raise Infra("generator %s %s failed: %s\n%s" % (module, job, r.get("error"), r["out"][-3000:]))
        return job, out
    with ThreadPoolExecutor(NCPU) as ex:
        return list(ex.map(one, enumerate(jobs)))


def split_range(lo, hi, parts):
    n = hi - lo
    parts = max(1, min(parts, n))
    step = (n + parts - 1) // parts
    return [(a, min(hi, a + step)) for a in range(lo, hi, step)]


def enc(cps):
    """code points -> hex of the UTF-8 bytes ('-' for the empty string)"""
    b = "".join(map(chr, cps)).encode("utf-8", "surrogatepass")
    return b.hex() if b else "-"


def byte2char(cps):
    """byte offset -> character offset (or None inside a character) for the UTF-8 encoding of cps"""
    m = {}
    off = 0
    for i, c in enumerate(cps):
        m[off] = i
        off += len(chr(c).encode("utf-8", "surrogatepass"))
    m[off] = len(cps)
    return m


def load_table(path):
    lines = None
    cases = []
    with open(path) as f:
        for ln in f:
            o = json.loads(ln)
            if "lines" in o and "p" not in o:
                lines = o["lines"]
            else:
                cases.append(o)
    return lines, cases


def flags_of(f):
    f -= 1
    return f % 2, (f // 2) % 2, (f // 4) % 2      # ic, nb, ne


def parse_resp(resp, line_cps, ng=NG):
    """'r ret cuts alloc used offsets...' -> dict with character offsets; boundary errors flagged"""
    t = resp.split()
    if t[0] == "E":
        return {"kind": "E"}
    if t[0] == "T":
        return {"kind": "T"}
    ret, cuts, alloc, used = int(t[1]), int(t[2]), int(t[3]), int(t[4])
    offs = [int(x) for x in t[5:5 + 2 * ng]]
    b2c = byte2char(line_cps)
    coffs, bad = [], None
    for o in offs:
        if o == POISON or o == -1:
            coffs.append(o)
        elif o in b2c:
            coffs.append(b2c[o])
        else:
            coffs.append(o)
            bad = "offset %d is not on a character boundary / outside the line" % o
    return {"kind": "r", "ret": ret, "cuts": cuts, "alloc": alloc, "used": used, "offs": coffs,
            "raw": offs, "bad": bad}
