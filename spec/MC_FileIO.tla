------------------------------ MODULE MC_FileIO ------------------------------
(***************************************************************************)
(* C01: the byte-level read and write paths of lbuf.c, parametric in the    *)
(* read chunk (CHUNK), the write batch (BATCH) and the string-buffer        *)
(* quantum (SBUFSZ).                                                        *)
(*  - Split / Join and their laws on every byte string up to a length       *)
(*  - the read loop feeding a growable buffer: sbuf_mem capacity rule       *)
(*  - lbuf_wr: batching, direct writes of long lines, write_fully with      *)
(*    arbitrary short counts, the final flush and ftruncate over a target   *)
(*    that held more data                                                   *)
(* A model at BATCH = 4, CHUNK = 3 visits every boundary interaction the    *)
(* real constants (4096, 1024) have; harness/checks/c01.py re-instantiates  *)
(* the same length shapes at the real constants against the binary.         *)
(***************************************************************************)
EXTENDS Naturals, Integers, Sequences, FiniteSets, TLC, SequencesExt
CONSTANTS CHUNK, BATCH, SBUFSZ, MaxLines, MaxLen, MaxPrev

NL == 10
RECURSIVE Split(_)
Split(t) == IF t = <<>> THEN <<>>
            ELSE LET nl == {i \in 1..Len(t) : t[i] = NL} IN
                 IF nl = {} THEN <<t>>
                 ELSE LET k == CHOOSE i \in nl : \A j \in nl : i <= j IN
                      <<SubSeq(t, 1, k - 1)>> \o Split(SubSeq(t, k + 1, Len(t)))
RECURSIVE Join(_)
Join(ls) == IF ls = <<>> THEN <<>> ELSE Head(ls) \o <<NL>> \o Join(Tail(ls))

(* all byte strings of length <= n over {NL, 120, 200} *)
RECURSIVE Strings(_)
Strings(n) == IF n = 0 THEN {<<>>} ELSE Strings(n - 1) \cup {Append(s, c) : s \in Strings(n - 1), c \in {NL, 120, 200}}
SplitJoinLaws(n) ==
    \A f \in Strings(n) :
        /\ Join(Split(f)) = f \o (IF f # <<>> /\ f[Len(f)] # NL THEN <<NL>> ELSE <<>>)   \* read-then-write
        /\ \A i \in 1..Len(Split(f)) : \A j \in 1..Len(Split(f)[i]) : Split(f)[i][j] # NL
        /\ Split(Join(Split(f))) = Split(f)

(* sbuf.c: capacity after sbuf_mem(len) / sbuf_chr; the terminator must fit *)
Align(n) == ((n + SBUFSZ - 1) \div SBUFSZ) * SBUFSZ
NextSz(o, r) == Align(IF o * 2 > o + r THEN o * 2 ELSE o + r)
SbufMem(sb, len) == LET sz == IF sb.n + len + 1 >= sb.sz THEN NextSz(sb.sz, len + 1) ELSE sb.sz IN [n |-> sb.n + len, sz |-> sz]
SbufChr(sb) == LET sz == IF sb.n + 2 >= sb.sz THEN NextSz(sb.sz, 1) ELSE sb.sz IN [n |-> sb.n + 1, sz |-> sz]
SbufFits(sb) == sb.sz = 0 \/ sb.n + 1 <= sb.sz

(* ---- the write path as a state machine ------------------------------------ *)
VARIABLES lines,    \* the lines to write (each without NL); line k holds bytes 16k+1, 16k+2, ...
          i, buf, sz, file, off, pend, nw, phase, sb, rd

vars == <<lines, i, buf, sz, file, off, pend, nw, phase, sb, rd>>
LineOf(k, len) == [j \in 1..len |-> 16 * k + j]
Texts == UNION {{[k \in 1..n |-> LineOf(k, ls[k])] : ls \in [1..n -> 0..MaxLen]} : n \in 0..MaxLines}

Init == /\ lines \in Texts
        /\ \E p \in 0..MaxPrev : file = [j \in 1..p |-> 255]      \* what the target held before
        /\ i = 1 /\ buf = <<>> /\ sz = 0 /\ off = 0 /\ pend = <<>> /\ nw = 0 /\ phase = "scan"
        /\ sb = [n |-> 0, sz |-> 0] /\ rd = 0

L(k) == lines[k] \o <<NL>>
Overwrite(f, o, data) == SubSeq(f, 1, o) \o data \o SubSeq(f, o + Len(data) + 1, Len(f))

(* write_fully(): one write(2) call that may be short *)
WriteCall == /\ phase \in {"flush", "direct", "final"} /\ nw < Len(pend)
             /\ \E k \in 1..(Len(pend) - nw) :
                  /\ file' = Overwrite(file, off, SubSeq(pend, nw + 1, nw + k))
                  /\ off' = off + k /\ nw' = nw + k
             /\ UNCHANGED <<lines, i, buf, sz, pend, phase, sb, rd>>
WriteDone == /\ phase \in {"flush", "direct", "final"} /\ nw = Len(pend)
             /\ phase' = IF phase = "final" THEN "trunc" ELSE "scan"
             /\ buf' = IF phase = "direct" THEN buf ELSE <<>>
             /\ i' = IF phase = "direct" THEN i + 1 ELSE i
             /\ sz' = IF phase = "direct" THEN sz + Len(pend) ELSE sz
             /\ pend' = <<>> /\ nw' = 0
             /\ UNCHANGED <<lines, file, off, sb, rd>>
Scan == /\ phase = "scan" /\ i <= Len(lines)
        /\ IF Len(buf) > 0 /\ Len(buf) + Len(L(i)) > BATCH
           THEN phase' = "flush" /\ pend' = buf /\ nw' = 0 /\ UNCHANGED <<i, buf, sz>>
           ELSE IF Len(L(i)) >= BATCH
           THEN phase' = "direct" /\ pend' = L(i) /\ nw' = 0 /\ UNCHANGED <<i, buf, sz>>
           ELSE buf' = buf \o L(i) /\ sz' = sz + Len(L(i)) /\ i' = i + 1 /\ UNCHANGED <<phase, pend, nw>>
        /\ UNCHANGED <<lines, file, off, sb, rd>>
Finish == /\ phase = "scan" /\ i > Len(lines)
          /\ IF Len(buf) > 0 THEN phase' = "final" /\ pend' = buf /\ nw' = 0
             ELSE phase' = "trunc" /\ UNCHANGED <<pend, nw>>
          /\ UNCHANGED <<lines, i, buf, sz, file, off, sb, rd>>
Truncate == /\ phase = "trunc" /\ file' = SubSeq(file, 1, sz) /\ phase' = "done"
            /\ UNCHANGED <<lines, i, buf, sz, off, pend, nw, sb, rd>>
(* the read loop of lbuf_rd on the file just written: chunks of 1..CHUNK bytes into the string buffer *)
ReadChunk == /\ phase = "done" /\ rd < Len(file)
             /\ \E k \in 1..(IF Len(file) - rd < CHUNK THEN Len(file) - rd ELSE CHUNK) :
                  rd' = rd + k /\ sb' = SbufMem(sb, k)
             /\ UNCHANGED <<lines, i, buf, sz, file, off, pend, nw, phase>>
Next == WriteCall \/ WriteDone \/ Scan \/ Finish \/ Truncate \/ ReadChunk
Spec == Init /\ [][Next]_vars

(* C01: what was written is exactly the lines, each ended by one newline; a longer target is cut;
   reading it back gives the same lines; the buffer always has room for its terminator *)
WrittenExact == phase = "done" => (file = Join(lines) /\ Split(file) = lines /\ sz = Len(file))
SbufOK == SbufFits(sb) /\ (rd = Len(file) /\ phase = "done" => sb.n = Len(file))
BufBound == Len(buf) <= BATCH
ASSUME SplitJoinLaws(6)      \* evaluated once by TLC: every byte string of <= 6 bytes over {NL, x, y}
Inv == WrittenExact /\ SbufOK /\ BufBound
=============================================================================
