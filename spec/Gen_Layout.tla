----------------------------- MODULE Gen_Layout -----------------------------
(* Case tables for C17 (columns and conversions) and C18 (reordering, shaping):  *)
(* every line up to a length over representatives of the layout and direction    *)
(* classes, under every setting of order / textdirection / linelimit, with the    *)
(* expected arrays; plus validation of width-class dumps (MODE=cps).               *)
EXTENDS Bidi, Json, IOUtils
VARIABLE dummy
Env(k, d) == IF k \in DOMAIN IOEnv THEN IOEnv[k] ELSE d
EnvN(k, d) == IF k \in DOMAIN IOEnv THEN atoi(IOEnv[k]) ELSE d

(* a, tab, wide CJK, combining acute (zero width), ZWNJ (placeholder, right-to-left), alef, beh (right-to-left letters),
   space, hyphen (neutrals), digit, e-acute (no class), fatha (diacritic with placeholder), tatweel *)
Alpha == <<97, 9, 28450, 769, 8204, 1575, 1576, 32, 45, 48, 233, 1614, 1600>> \o (IF DwBellRep > 0 THEN <<DwBellRep>> ELSE <<>>)    \* + wide and unprintable
MarkAlpha == Alpha \o <<36, 92, 123, 125, 91, 93, 42>>          \* with the characters of the direction marks
Mode == Env("MODE", "lines")
AlphaM == IF Mode = "marks" THEN MarkAlpha ELSE Alpha
NA == Len(AlphaM)
RECURSIVE LineOf(_)
LineOf(k) == IF k = 0 THEN <<>> ELSE LineOf((k - 1) \div NA) \o <<AlphaM[((k - 1) % NA) + 1]>>

Orders == <<0, 1, 2>>
Tds == <<-2, -1, 0, 1, 2>>
(* linelimit: far below, far above, and - codes 0 / -1 - exactly the length of the line (the longest line still
   reordered) and one less (the shortest one that is not) *)
Lims == <<2, 256, 0, -1>>

Case(line0, order, td, limc) ==
    LET line == line0 \o <<NL>>
        n    == Len(line)
        lim  == IF limc = 0 THEN n ELSE IF limc = -1 THEN (IF n > 1 THEN n - 1 ELSE 1) ELSE limc
        ctx  == Ctx(line, td)
        marks == HasMarkChar(line)
        (* lines with mark characters: the operational definition (Bidi!ReorderOp); without: the declarative one, and both agree *)
        vis  == IF marks THEN ReorderOp(line, ctx) ELSE Reorder(line, ctx)
        reo  == Reorders(line, order, lim)
        p    == Position(line, IF reo THEN vis ELSE Ident(n))
        wid  == p[n + 1]
    IN [line |-> line, order |-> order, td |-> td, lim |-> lim, ctx |-> ctx, marks |-> IF marks THEN 1 ELSE 0,
        vis |-> vis, perm |-> IF IsPerm(vis) /\ vis[n] = n - 1 THEN 1 ELSE 0,
        ident |-> IF (\A i \in 1..n - 1 : ~Edge(line[i], ctx)) => vis = Ident(n) THEN 1 ELSE 0,
        agree |-> IF ReorderAgrees(line, ctx) THEN 1 ELSE 0,
        reo |-> IF reo THEN 1 ELSE 0,
        pos |-> p,
        thm |-> IF Tiling(line, IF reo THEN vis ELSE Ident(n), p) /\ RoundTrip(line, p) THEN 1 ELSE 0,
        rpos |-> [o \in 1..(n + 2) |-> RenPos(p, n, o - 1)],
        roff |-> [x \in 1..(wid + 2) |-> RenOff(p, n, x - 1)],
        rcur |-> [x \in 1..(wid + 2) |-> RenCursor(line, p, n, x - 1)],
        rnxt |-> [x \in 1..(wid + 2) |-> RenNext(line, p, n, x - 1, 1)],
        rprv |-> [x \in 1..(wid + 2) |-> RenNext(line, p, n, x - 1, -1)],
        noeol |-> [o \in 1..(n + 2) |-> RenNoeol(line, o - 1)]]

Lo == EnvN("LO", 0)
Hi == EnvN("HI", 10)
(* option combinations are spread over the lines so that every line meets several and every combination many lines *)
OptsOf(k, j) == LET x == (k * 7 + j * 11) % 60 IN <<Orders[(x % 3) + 1], Tds[((x \div 3) % 5) + 1], Lims[((x \div 15) % 4) + 1]>>
NOPT == EnvN("NOPT", 4)

(* shaping contexts: prev / diacritics / letter / diacritics / next *)
Letters == <<1569, 1570, 1571, 1572, 1573, 1574, 1575, 1576, 1577, 1578, 1579, 1580, 1581, 1582, 1583, 1584, 1585, 1586, 1587,
             1588, 1589, 1590, 1591, 1592, 1593, 1594, 1600, 1601, 1602, 1603, 1604, 1605, 1606, 1607, 1608, 1609, 1610,
             1662, 1670, 1688, 1705, 1711, 1740, 8204, 8205>>
Neigh == <<0, 1576, 1575, 1569, 1600, 8205, 8204, 97, 32, 1740>>      \* none, dual-, right-, non-joining, tatweel, ZWJ, ZWNJ, Latin, space
Dia == << <<>>, <<1614>>, <<1617, 1614>> >>
ShapeLine(l, a, b, d1, d2) == (IF a = 0 THEN <<>> ELSE <<a>> \o d1) \o <<l>> \o d2 \o (IF b = 0 THEN <<>> ELSE <<b>>)
ShapeCases == [k \in 1..(Len(Letters) * Len(Neigh) * Len(Neigh) * 3) |->
    LET l == Letters[((k - 1) % Len(Letters)) + 1]
        a == Neigh[(((k - 1) \div Len(Letters)) % Len(Neigh)) + 1]
        b == Neigh[(((k - 1) \div (Len(Letters) * Len(Neigh))) % Len(Neigh)) + 1]
        d == Dia[(((k - 1) \div (Len(Letters) * Len(Neigh) * Len(Neigh))) % 3) + 1]
        line == ShapeLine(l, a, b, d, d) \o <<NL>>
        i == (IF a = 0 THEN 0 ELSE 1 + Len(d)) + 1
    IN [line |-> line, at |-> i - 1,
        (* the expected result is unique: enumerate the candidates *)
        want |-> CHOOSE out \in {l} \cup {FormRow(l)[j] : j \in 2..5} : ShapeOK(line, i, out)]]

RECURSIVE ConcatAll(_)
ConcatAll(ss) == IF ss = <<>> THEN <<>> ELSE Head(ss) \o ConcatAll(Tail(ss))
Dump == IF Mode = "cps" THEN ndJsonDeserialize(Env("IN", "")) ELSE <<>>
BadWid == SelectSeq(Dump, LAMBDA r : ~(/\ r.wid = UcWid(r.cp) /\ r.bell = (IF IsBell(r.cp) THEN 1 ELSE 0)
                                       /\ r.comb = (IF r.cp > 127 /\ IsComb(r.cp) THEN 1 ELSE 0)))
MarkLines == IF Mode = "marklist" THEN ndJsonDeserialize(Env("IDXFILE", "")) ELSE <<>>
Table == IF Mode = "marklist" THEN ConcatAll([k \in 1..Len(MarkLines) |-> [j \in 1..NOPT |->
                  LET o == OptsOf(k, j) IN Case(MarkLines[k], o[1], o[2], o[3])]])
         ELSE IF Mode = "cps" THEN <<[checked |-> Len(Dump), tables_ok |-> IF TablesOK THEN 1 ELSE 0, bad |-> BadWid]>>
         ELSE IF Mode = "shape" THEN ShapeCases
         ELSE ConcatAll([k \in 1..(Hi - Lo) |-> [j \in 1..NOPT |->
                  LET o == OptsOf(Lo + k - 1, j) IN Case(LineOf(Lo + k - 1), o[1], o[2], o[3])]])
Init == dummy = 0 /\ ndJsonSerialize(Env("OUT", "/tmp/gen_layout.ndjson"), Table)
Next == UNCHANGED dummy
Spec == Init /\ [][Next]_dummy
=============================================================================
