SPECIFICATION Spec
CONSTANTS MaxLen = 2
          MaxIns = 1
          MaxHist = 3
          MaxSeq = 3
          MaxId = 3
          Dump = TRUE
INVARIANT DumpInv
VIEW View
CHECK_DEADLOCK FALSE
