SPECIFICATION Spec
CONSTANTS MaxLen = 2
          MaxIns = 2
          MaxHist = 3
          MaxSeq = 3
          MaxId = 3
          Dump = FALSE
INVARIANT Inv
PROPERTY ActionProps
CHECK_DEADLOCK FALSE
VIEW View
