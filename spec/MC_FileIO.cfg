SPECIFICATION Spec
CONSTANTS CHUNK = 3
          BATCH = 4
          SBUFSZ = 4
          MaxLines = 3
          MaxLen = 5
          MaxPrev = 3
INVARIANT Inv
CHECK_DEADLOCK FALSE
