SPECIFICATION MCSpec
CONSTANTS MaxSteps = 2
INVARIANT Inv
PROPERTY StepProps
VIEW MCView
CHECK_DEADLOCK FALSE
