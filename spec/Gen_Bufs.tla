------------------------------ MODULE Gen_Bufs ------------------------------
(* Behaviours over the buffer table and files (C02, C20, C03 guards, C01 at  *)
(* line level): seeded scripts of open / switch / edit / undo / write /      *)
(* reload / delete-buffer / quit commands and external file events, each     *)
(* with the state Bufs!Step expects.  harness/bufdrive.py runs them in       *)
(* lock-step against `vi -s -e' with the real table size NB = 16.            *)
EXTENDS Bufs, Json, IOUtils
VARIABLE dummy
Env(k, d) == IF k \in DOMAIN IOEnv THEN IOEnv[k] ELSE d
EnvN(k, d) == IF k \in DOMAIN IOEnv THEN atoi(IOEnv[k]) ELSE d

Rnd(sd, t, j) == LET a == (sd * 131 + t * 31 + j * 7 + 17) % 60000
                     b == (t * 197 + j * 61 + sd + 3) % 60000
                 IN ((((a * 31337 + b * 2467 + 12345) % 65521) * 251 + a + 3 * b) % 32749)
Pick(sd, t, j, n) == Rnd(sd, t, j) % n

AllPaths == <<"f1", "f2", "f3", "f4", "f5", "f6", "f7", "f8", "f9", "f10", "f11", "f12", "f13", "f14", "f15", "f16", "f17", "f18", "f19">>
NPaths(sd) == IF EnvN("NPATHS", 0) > 0 THEN EnvN("NPATHS", 0) ELSE IF sd % 4 = 0 THEN 19 ELSE IF sd % 4 = 1 THEN 3 ELSE IF sd % 4 = 2 THEN 6 ELSE 17
PathOf(sd, t, j) == AllPaths[Pick(sd, t, j, NPaths(sd)) + 1]

(* prompt lines made of several commands: a save in the middle of a line, an undo after it, a switch at the end *)
WW == [k |-> "w", path |-> "", whole |-> TRUE, beg |-> 0, end |-> 0, force |-> TRUE, fault |-> ""]
DD == [k |-> "d"]
TT == [k |-> "top"]
Elem3(i, p) == CASE i = 0 -> <<TT, DD, WW, DD>>
                 [] i = 1 -> <<DD, WW>>
                 [] i = 2 -> <<WW, DD>>
                 [] i = 3 -> <<DD, WW, [k |-> "u"]>>
                 [] i = 4 -> <<DD, [k |-> "e", path |-> p, force |-> TRUE]>>
                 [] i = 6 -> <<[k |-> "e", path |-> p, force |-> TRUE], DD>>
                 [] OTHER -> <<TT, DD, WW, DD, [k |-> "u"], [k |-> "redo"]>>
GenCmd(st, sd, t) ==
    LET k == Pick(sd, t, 0, 100)
        n == Len(Cur(st).lb.lines)
        f(m) == Pick(sd, t, 1, m) = 0          \* force with probability 1/m
        (* scripts over many paths first fill the table *)
        filling == NPaths(sd) >= 17 /\ Len(st.tab) < 16 /\ Pick(sd, t, 9, 3) > 0
        (* every 16 steps, in the scripts with an even seed: change, save, reload the same file (the history survives),
           then undo down to the text as first read - text and file differ although a save lies in between *)
        ph == t % 16
        scen == sd % 2 = 0 /\ ph >= 11 /\ Cur(st).path # ""
        (* in the scripts with seed = 3 mod 4: three buffers, the current one modified, then :ew to the one in the third slot *)
        scew == sd % 4 = 3 /\ ph >= 3 /\ ph <= 8
        (* seed = 1 mod 4: autowrite on; a modified buffer that is not current; both files rewritten by another program, the
           current one re-read afterwards (so its time stamp is the later one); quit must refuse to overwrite the other file *)
        scaw == sd % 4 = 1 /\ ph >= 3 /\ ph <= 11
        (* seed = 0 mod 4: the sixteen slots are filled at once (one new path per step, now and then a change that the
           next e! leaves behind in its buffer), so that the rest of the script runs with a full table: going back to the
           path in the last slot, opening a seventeenth *)
        fast == sd % 4 = 0 /\ Len(st.tab) < 16
    IN IF fast /\ t % 5 = 1 THEN [k |-> "a", n |-> 1]
       ELSE IF fast THEN [k |-> "e", path |-> AllPaths[Len(st.tab) + 1], force |-> TRUE]
       ELSE IF scaw /\ ph = 3 THEN [k |-> "se", opt |-> "aw", val |-> TRUE]
       ELSE IF scaw /\ ph = 4 THEN [k |-> "e", path |-> "f1", force |-> TRUE]
       ELSE IF scaw /\ ph = 5 THEN [k |-> "a", n |-> 1]
       ELSE IF scaw /\ ph = 6 THEN [k |-> "e", path |-> "f2", force |-> TRUE]
       ELSE IF scaw /\ ph = 7 THEN [k |-> "ext", path |-> "f1"]
       ELSE IF scaw /\ ph = 8 THEN [k |-> "ext", path |-> "f2"]
       ELSE IF scaw /\ ph = 9 THEN [k |-> "e", path |-> "", force |-> TRUE]
       ELSE IF scaw /\ ph = 10 THEN [k |-> "q", force |-> FALSE, fault |-> ""]
       ELSE IF scaw /\ ph = 11 THEN [k |-> "se", opt |-> "aw", val |-> FALSE]
       ELSE IF scew /\ ph \in {3, 4, 5} THEN [k |-> "e", path |-> AllPaths[ph - 2], force |-> TRUE]
       ELSE IF scew /\ ph = 6 THEN [k |-> "a", n |-> 1]
       ELSE IF scew /\ ph = 7 THEN [k |-> "e", path |-> AllPaths[1], force |-> FALSE, ew |-> TRUE]
       ELSE IF scew /\ ph = 8 THEN [k |-> "w", path |-> "", whole |-> TRUE, beg |-> 0, end |-> 0, force |-> TRUE, fault |-> ""]
       ELSE IF scen /\ ph = 11 THEN [k |-> "a", n |-> 1]
       ELSE IF scen /\ ph = 12 THEN [k |-> "w", path |-> "", whole |-> TRUE, beg |-> 0, end |-> 0, force |-> TRUE, fault |-> ""]
       ELSE IF scen /\ ph = 13 THEN [k |-> "e", path |-> "", force |-> TRUE]
       ELSE IF scen /\ ph \in {14, 15} THEN [k |-> "u"]
       ELSE IF filling THEN (IF Dirty(Cur(st)) /\ ~f(3) THEN [k |-> "w", path |-> "", whole |-> TRUE, beg |-> 0, end |-> 0, force |-> TRUE, fault |-> ""]
                        ELSE IF Pick(sd, t, 8, 4) = 0 THEN [k |-> "a", n |-> 1]
                        ELSE [k |-> "e", path |-> AllPaths[Min2(NPaths(sd), Len(st.tab) + Pick(sd, t, 2, 2))], force |-> f(3)])
       ELSE IF k < 4 THEN [k |-> "line", cs |-> Elem3(Pick(sd, t, 2, 7), PathOf(sd, t, 3))]
       (* with the table full, go back to the least recently used buffers by path: the last slots of the table *)
       ELSE IF k < 10 /\ Len(st.tab) = 16 /\ st.tab[16 - Pick(sd, t, 4, 2)].path # ""
            THEN [k |-> "e", path |-> st.tab[16 - Pick(sd, t, 4, 2)].path, force |-> f(5)]
       (* :ew to a path that is open somewhere behind the alternate buffer *)
       ELSE IF k >= 10 /\ k < 13 /\ Len(st.tab) >= 3 /\ st.tab[3 + Pick(sd, t, 4, Len(st.tab) - 2)].path # ""
            THEN [k |-> "e", path |-> st.tab[3 + Pick(sd, t, 4, Len(st.tab) - 2)].path, force |-> f(6), ew |-> TRUE]
       ELSE IF k < 18 THEN [k |-> "e", path |-> PathOf(sd, t, 2), force |-> f(5), ew |-> Pick(sd, t, 5, 6) = 0]
       ELSE IF k < 23 THEN [k |-> "e", path |-> "", force |-> f(3)]
       ELSE IF k < 25 /\ st.args # <<>> THEN [k |-> "n", dis |-> IF Pick(sd, t, 2, 3) = 0 THEN -1 ELSE 1]
       ELSE IF k < 26 THEN [k |-> "top"]
       ELSE IF k < 35 THEN [k |-> "a", n |-> 1 + Pick(sd, t, 2, 2)]
       ELSE IF k < 40 THEN [k |-> "d"]
       ELSE IF k < 46 THEN [k |-> "u"]
       ELSE IF k < 49 THEN [k |-> "redo"]
       ELSE IF k < 51 THEN [k |-> "wp"]
       ELSE IF k < 59 THEN [k |-> "w", path |-> "", whole |-> TRUE, beg |-> 0, end |-> 0, force |-> f(6), fault |-> ""]
       ELSE IF k < 63 THEN [k |-> "w", path |-> PathOf(sd, t, 2), whole |-> TRUE, beg |-> 0, end |-> 0, force |-> f(3), fault |-> ""]
       ELSE IF k < 67 THEN (IF n >= 2 THEN [k |-> "w", path |-> "", whole |-> FALSE, beg |-> 0, end |-> 1, force |-> f(4), fault |-> ""]
                            ELSE [k |-> "a", n |-> 2])
       ELSE IF k < 70 THEN (IF n >= 2 THEN [k |-> "w", path |-> PathOf(sd, t, 2), whole |-> FALSE, beg |-> 1, end |-> n, force |-> f(2), fault |-> ""]
                            ELSE [k |-> "a", n |-> 2])
       ELSE IF k < 80 THEN LET h == Pick(sd, t, 2, 6) IN
                           [k |-> "b", how |-> IF h < 2 THEN "num" ELSE IF h = 2 THEN "next" ELSE IF h = 3 THEN "prev" ELSE "alias",
                            n |-> IF h < 2 THEN 1 + Pick(sd, t, 3, st.cnt + 1) ELSE 1 + Pick(sd, t, 3, 3),
                            force |-> FALSE]       \* there is no "b!" command
       ELSE IF k < 82 THEN [k |-> "b", how |-> "del", n |-> 0, force |-> FALSE]
       ELSE IF k < 83 THEN [k |-> "b", how |-> "renum", n |-> 0, force |-> FALSE]
       ELSE IF k < 86 THEN [k |-> "se", opt |-> IF Pick(sd, t, 2, 2) = 0 THEN "aw" ELSE "wa", val |-> Pick(sd, t, 3, 3) = 0]
       ELSE IF k < 90 THEN [k |-> "touch", path |-> PathOf(sd, t, 2)]
       ELSE IF k < 92 THEN [k |-> "ext", path |-> PathOf(sd, t, 2)]
       ELSE IF k < 96 THEN [k |-> "q", force |-> f(8), fault |-> ""]
       ELSE IF k < 97 THEN [k |-> "wq", force |-> f(4), fault |-> ""]
       ELSE IF k < 98 THEN [k |-> "x", force |-> f(4), fault |-> ""]
       ELSE IF k < 99 THEN [k |-> "xa", force |-> f(4), fault |-> ""]
       ELSE [k |-> "q", force |-> TRUE, fault |-> ""]

(* the text typed for a command (ASCII); external events are performed by the driver *)
RECURSIVE Num(_)
Num(n) == IF n < 10 THEN <<48 + n>> ELSE Num(n \div 10) \o <<48 + (n % 10)>>
Tok(k) == <<116>> \o Num(k)                                  \* "t<k>"
RECURSIVE Toks(_, _)
Toks(a, k) == IF k = 0 THEN <<>> ELSE Tok(a) \o <<10>> \o Toks(a + 1, k - 1)
Str(s) == CASE s = "" -> <<>> [] OTHER -> LET i == CHOOSE j \in 1..19 : AllPaths[j] = s IN <<102>> \o Num(i)   \* "f<i>"
Bang(f) == IF f THEN <<33>> ELSE <<>>
Sp(p) == IF p = "" THEN <<>> ELSE <<32>> \o Str(p)
RECURSIVE LineStr(_)
LineStr(cs) == IF cs = <<>> THEN <<>>
               ELSE (CASE Head(cs).k = "d" -> <<100>> [] Head(cs).k = "top" -> <<49>> [] Head(cs).k = "u" -> <<117>> [] Head(cs).k = "redo" -> <<114, 101, 100, 111>>
                       [] Head(cs).k = "w" -> <<119, 33>> [] Head(cs).k = "e" -> <<101, 33, 32>> \o Str(Head(cs).path))
                    \o (IF Len(cs) > 1 THEN <<124>> ELSE <<>>) \o LineStr(Tail(cs))
Typed(st, c) ==
    CASE c.k = "e" -> <<101>> \o (IF "ew" \in DOMAIN c /\ c.ew THEN <<119>> ELSE <<>>) \o Bang(c.force) \o Sp(c.path) \o <<10>>
      [] c.k = "w" -> (IF c.whole THEN <<>> ELSE Num(c.beg + 1) \o <<44>> \o Num(c.end)) \o <<119>> \o Bang(c.force) \o Sp(c.path) \o <<10>>
      [] c.k = "wp" -> <<119, 32, 33, 99, 97, 116, 32, 62, 47, 100, 101, 118, 47, 110, 117, 108, 108, 10>>    \* "w !cat >/dev/null"
      [] c.k = "q" -> <<113>> \o Bang(c.force) \o <<10>>
      [] c.k = "wq" -> <<119, 113>> \o Bang(c.force) \o <<10>>
      [] c.k = "x" -> <<120>> \o Bang(c.force) \o <<10>>
      [] c.k = "xa" -> <<120, 97>> \o Bang(c.force) \o <<10>>
      [] c.k = "b" -> <<98>> \o Bang(c.force) \o <<32>> \o
                      (CASE c.how = "num" -> Num(c.n) [] c.how = "next" -> <<43>> [] c.how = "prev" -> <<45>>
                         [] c.how = "alias" -> <<(<<37, 35, 94>>)[c.n]>> [] c.how = "del" -> <<33>> [] OTHER -> <<126>>) \o <<10>>
      [] c.k = "a" -> <<97, 10>> \o Toks(st.nid, c.n) \o <<46, 10>>
      [] c.k = "top" -> <<49, 10>>
      [] c.k = "n" -> IF c.dis > 0 THEN <<110, 10>> ELSE <<112, 114, 101, 118, 10>>
      [] c.k = "d" -> <<100, 10>>
      [] c.k = "u" -> <<117, 10>>
      [] c.k = "redo" -> <<114, 101, 100, 111, 10>>
      [] c.k = "line" -> LineStr(c.cs) \o <<10>>
      [] c.k = "se" -> <<115, 101, 32>> \o (IF c.val THEN <<>> ELSE <<110, 111>>) \o (IF c.opt = "aw" THEN <<97, 119>> ELSE <<119, 97>>) \o <<10>>
      [] OTHER -> <<>>

BufProj(b, row) == [id |-> b.id, path |-> b.path, lines |-> b.lb.lines, dirty |-> IF Dirty(b) THEN 1 ELSE 0,
                    differs |-> IF Differs(b) THEN 1 ELSE 0, row |-> row, mtime |-> b.mtime, hu |-> b.lb.hu, hn |-> Len(b.lb.hist)]
Proj(st) == [quit |-> IF st.quit THEN 1 ELSE 0, ret |-> st.ret, msg |-> st.msg,
             tab |-> [i \in 1..Len(st.tab) |-> BufProj(st.tab[i], IF i = 1 THEN st.row ELSE st.tab[i].row)],
             aw |-> IF st.aw THEN 1 ELSE 0, wa |-> IF st.wa THEN 1 ELSE 0,
             dmt |-> [p \in {q \in DOMAIN st.disk : st.disk[q].ex} |-> st.disk[p].mt]]
DiskProj(st) == [p \in {q \in DOMAIN st.disk : st.disk[q].ex} |-> st.disk[p].lines]
(* the spec's own properties on every generated step *)
Thm(s, c, t) == /\ DirtySound(t) /\ NoLoss(t) /\ TableOK(t)
                /\ (c.k = "b" /\ c.how \in {"num", "next", "prev", "alias"} /\ ~(s.aw /\ Dirty(Cur(s)))) => SameBufs(s, t)
                (* returning to an open path changes no buffer and no file - unless autowrite first saves the modified current buffer *)
                /\ (c.k = "e" /\ c.path # "" /\ FindPath(s, c.path) > 0 /\ ~(s.aw /\ Dirty(Cur(s)))) => (SameBufs(s, t) /\ t.disk = s.disk)

RECURSIVE Script(_, _, _, _)
Script(st, sd, t, n) ==
    IF t > n \/ st.quit THEN <<>>
    ELSE LET c == GenCmd(st, sd, t)
             s1 == Step(st, c)
         IN <<[cmd |-> c, typed |-> Typed(st, c), exp |-> Proj(s1), thm |-> IF Thm(st, c, s1) THEN 1 ELSE 0,
               disk |-> IF s1.quit \/ t = n THEN DiskProj(s1) ELSE [x \in {} |-> 0],
               stamp |-> st.now, tok |-> st.nid]>>
            \o Script(s1, sd, t + 1, n)

PathSet == {AllPaths[i] : i \in 1..19}
(* C03: fixed scenarios around one write command with an injected failure class ("" none / short count,
   "open", "io" = a write or the close fails).  n lines are appended and saved to f1, one more line makes the
   buffer modified, then the command under test, a quit (refused after a failure), a forced retry, a quit. *)
W(path, force, fault) == [k |-> "w", path |-> path, whole |-> TRUE, beg |-> 0, end |-> 0, force |-> force, fault |-> fault]
Under(kind, fault) == CASE kind = "w"   -> W("", FALSE, fault)
                        [] kind = "w!"  -> W("", TRUE, fault)
                        [] kind = "wf"  -> W("f2", FALSE, fault)        \* to another, new path
                        [] kind = "wq"  -> [k |-> "wq", force |-> FALSE, fault |-> fault]
                        [] kind = "x"   -> [k |-> "x", force |-> FALSE, fault |-> fault]
FaultScript(n, kind, fault) ==
    (IF n = 0 THEN <<[k |-> "e", path |-> "f1", force |-> FALSE], W("", FALSE, "")>>
     ELSE <<[k |-> "e", path |-> "f1", force |-> FALSE], [k |-> "a", n |-> n], W("", FALSE, "")>>)
    \o (IF n = 0 /\ kind \notin {"wf"} THEN <<>> ELSE <<[k |-> "a", n |-> 1]>>)
    \o <<Under(kind, fault), [k |-> "q", force |-> FALSE, fault |-> ""], W("", TRUE, ""), [k |-> "q", force |-> FALSE, fault |-> ""]>>
RECURSIVE RunFixed(_, _, _)
RunFixed(st, cs, t) ==
    IF t > Len(cs) \/ st.quit THEN <<>>
    ELSE LET c == cs[t]  s1 == Step(st, c) IN
         <<[cmd |-> c, typed |-> Typed(st, c), exp |-> Proj(s1), thm |-> IF Thm(st, c, s1) THEN 1 ELSE 0,
            disk |-> IF s1.quit \/ t = Len(cs) THEN DiskProj(s1) ELSE [x \in {} |-> 0], stamp |-> st.now, tok |-> st.nid]>>
         \o RunFixed(s1, cs, t + 1)
FaultTable == LET ns == <<0, 1, 520, 1500>>  kinds == <<"w", "w!", "wf", "wq", "x">>  fs == <<"", "open", "io">> IN
              [i \in 1..(4 * 5 * 3) |->
                  LET n == ns[((i - 1) \div 15) + 1]  kind == kinds[(((i - 1) \div 3) % 5) + 1]  f == fs[((i - 1) % 3) + 1] IN
                  [seed |-> -i, n |-> n, kind |-> kind, fault |-> f,
                   steps |-> RunFixed(NewState(PathSet, 16), FaultScript(n, kind, f), 1)]]

(* fixed scripts: the inputs of repaired defects, run by every execution of C02 / C20 *)
CorpusScripts == <<
    (* :xa failing on the unnamed buffer after it has written f1: f1 must count as saved, so that undoing makes it modified *)
    << [k |-> "e", path |-> "f1", force |-> FALSE], [k |-> "a", n |-> 2], [k |-> "e", path |-> "f2", force |-> TRUE],
       [k |-> "xa", force |-> FALSE, fault |-> ""], [k |-> "e", path |-> "f1", force |-> FALSE], [k |-> "u"],
       [k |-> "q", force |-> FALSE, fault |-> ""] >>,
    (* a partial write to the buffer's own file does not make it unmodified *)
    << [k |-> "e", path |-> "f1", force |-> FALSE], [k |-> "a", n |-> 2],
       [k |-> "w", path |-> "", whole |-> FALSE, beg |-> 0, end |-> 1, force |-> TRUE, fault |-> ""], [k |-> "q", force |-> FALSE, fault |-> ""] >>,
    (* a line that changes f1 and leaves it, a line that comes back and changes it again: two undo steps *)
    << [k |-> "e", path |-> "f1", force |-> FALSE], [k |-> "a", n |-> 3],
       [k |-> "line", cs |-> <<DD, [k |-> "e", path |-> "f2", force |-> TRUE]>>],
       [k |-> "line", cs |-> <<[k |-> "e", path |-> "f1", force |-> TRUE], DD>>], [k |-> "u"], [k |-> "u"], [k |-> "redo"] >>,
    (* piping an unnamed modified buffer to a command neither names nor saves it: :q is refused *)
    << [k |-> "a", n |-> 2], [k |-> "wp"], [k |-> "q", force |-> FALSE, fault |-> ""], [k |-> "e", path |-> "f1", force |-> FALSE],
       [k |-> "a", n |-> 1], [k |-> "wp"], [k |-> "q", force |-> FALSE, fault |-> ""] >> >>
(* one script in three starts the editor with three file arguments *)
ArgsOf(sd) == IF sd % 3 = 2 THEN <<AllPaths[1], AllPaths[2], AllPaths[3]>> ELSE <<>>
Seed0 == EnvN("SEED0", 1)
NScripts == EnvN("NSCRIPTS", 4)
NSteps == EnvN("NSTEPS", 30)
Table == IF Env("MODE", "") = "faults" THEN FaultTable
         ELSE IF Env("MODE", "") = "corpus"
         THEN [i \in 1..Len(CorpusScripts) |-> [seed |-> 0 - i, steps |-> RunFixed(NewState(PathSet, 16), CorpusScripts[i], 1)]]
         ELSE
         [k \in 1..NScripts |-> [seed |-> Seed0 + k - 1, args |-> ArgsOf(Seed0 + k - 1),
                                 steps |-> Script(WithArgs(NewState(PathSet, 16), ArgsOf(Seed0 + k - 1)), Seed0 + k - 1, 1, NSteps)]]
Init == dummy = 0 /\ ndJsonSerialize(Env("OUT", "/tmp/gen_bufs.ndjson"), Table)
Next == UNCHANGED dummy
Spec == Init /\ [][Next]_dummy
=============================================================================
