-------------------------------- MODULE Bufs --------------------------------
(***************************************************************************)
(* The buffer table, files and the commands that read, write and leave      *)
(* them (ex.c: bufs_*, ec_edit, ec_write, ec_quit, ec_buffer, lbuf_save):   *)
(* properties C02 (no silent loss), C03 (guards and failures), C20          *)
(* (isolation of buffers), C01 at the level of whole lines.                 *)
(*                                                                          *)
(* A line is an opaque token (an integer); a file is a sequence of lines    *)
(* plus a modification stamp.  Every buffer carries its own Lbuf record     *)
(* (undo log and the sequence numbers that decide "modified").  Ghost       *)
(* field `synced' of a buffer: the text its file had when the editor last   *)
(* read it or last wrote the whole buffer to it successfully.               *)
(***************************************************************************)
EXTENDS Naturals, Integers, Sequences, FiniteSets, TLC, SequencesExt
Lb == INSTANCE Lbuf

Max2(a, b) == IF a < b THEN b ELSE a
Min2(a, b) == IF a < b THEN a ELSE b

NoFile == [ex |-> FALSE, lines |-> <<>>, mt |-> -1]
(* modification stamps: everything the editor writes within a session carries the same stamp (file times have
   a granularity of one second and a session is shorter); an external event takes a stamp 1000 larger than any before *)
WriteStamp == 1
NewBuf(id, path) == [id |-> id, path |-> path, lb |-> Lb!New, mtime |-> -1, row |-> 0, synced |-> <<>>]

(* st.tab: the open buffers, tab[1] current, tab[2] alternate (MRU order); st.row: the live current line *)
NewState(paths, nb) ==
    [tab  |-> <<NewBuf(1, "")>>, cnt |-> 1, nb |-> nb,
     disk |-> [p \in paths |-> NoFile],
     row  |-> 0, aw |-> FALSE, wa |-> FALSE, quit |-> FALSE,
     msg  |-> "",            \* class of the message the command showed: "", "modified", "wfail", "nobuf", "written", "read"
     ret  |-> 0,
     nid  |-> 100,           \* next fresh line token
     now  |-> 1,             \* stamps: every write and every external touch takes a larger one
     lost |-> FALSE,         \* ghost: text that differed from its file was discarded without force
     args |-> <<>>, apos |-> 0]    \* the argument list of the command line and the position in it (0-based), for :n and :prev

(* the editor started with file arguments: the first is the initial buffer's path (none of the files exists yet) *)
WithArgs(st, args) == IF args = <<>> THEN st ELSE [st EXCEPT !.args = args, !.tab[1].path = args[1]]

Cur(st) == st.tab[1]
Dirty(b) == Lb!Dirty(b.lb)
Differs(b) == b.lb.lines # b.synced
FindPath(st, p) == IF \E i \in 1..Len(st.tab) : st.tab[i].path = p
                   THEN CHOOSE i \in 1..Len(st.tab) : st.tab[i].path = p /\ \A j \in 1..i - 1 : st.tab[j].path # p
                   ELSE 0

(* bufs_switch(idx): the live view is saved into slot 1, slot idx comes to the front *)
Switch(st, i) ==
    (* the buffer that is left ends its undo step: what is changed in it after coming back is another step *)
    LET t0 == [st.tab EXCEPT ![1].row = st.row, ![1].lb = Lb!Bump(st.tab[1].lb)]
        t1 == <<t0[i]>> \o SubSeq(t0, 1, i - 1) \o SubSeq(t0, i + 1, Len(t0))
    IN [st EXCEPT !.tab = t1, !.row = t0[i].row]

(* lbuf_modified() on buffer i: bumps its sequence number, answers dirty *)
BumpBuf(st, i) == [st EXCEPT !.tab[i].lb = Lb!Bump(st.tab[i].lb)]

(* lbuf_save(): guards, then open / write / close.  fault: "" or the kind of an injected failure.
   Result: [ok, disk', why] *)
Save(st, lines, path, force, ts, fault) ==
    LET f == IF path \in DOMAIN st.disk THEN st.disk[path] ELSE NoFile
        mt == IF f.ex THEN f.mt ELSE -1
    IN IF ~force /\ mt > ts THEN [ok |-> FALSE, disk |-> st.disk, why |-> "guard"]
       ELSE IF ~force /\ ts <= 0 /\ mt >= 0 THEN [ok |-> FALSE, disk |-> st.disk, why |-> "guard"]
       ELSE IF path = "" \/ path \notin DOMAIN st.disk THEN [ok |-> FALSE, disk |-> st.disk, why |-> "open"]
       ELSE IF fault = "open" THEN [ok |-> FALSE, disk |-> st.disk, why |-> "open"]
       ELSE IF fault # "" THEN      \* a write or the close failed: the file may hold anything
            [ok |-> FALSE, disk |-> [st.disk EXCEPT ![path] = [ex |-> TRUE, lines |-> <<-1>>, mt |-> WriteStamp]], why |-> "io"]
       ELSE [ok |-> TRUE, disk |-> [st.disk EXCEPT ![path] = [ex |-> TRUE, lines |-> lines, mt |-> WriteStamp]], why |-> ""]

(* bufs_modified(i, msg): TRUE = the caller must refuse *)
Modified(st, i) ==     \* [refuse, st']
    LET s1 == BumpBuf(st, i)   b == s1.tab[i] IN
    IF ~Dirty(b) THEN [refuse |-> FALSE, st |-> s1]
    ELSE IF s1.aw /\ b.path # ""
         THEN LET r == Save(s1, b.lb.lines, b.path, FALSE, b.mtime, "") IN     \* autowrite: written and recorded as saved
              IF ~r.ok THEN [refuse |-> TRUE, st |-> [s1 EXCEPT !.disk = r.disk, !.now = s1.now + 1]]
              ELSE [refuse |-> FALSE, st |-> [s1 EXCEPT !.disk = r.disk, !.now = s1.now + 1,
                                                          !.tab[i].lb = Lb!Saved(b.lb, FALSE), !.tab[i].mtime = WriteStamp,
                                                          !.tab[i].synced = b.lb.lines]]
         ELSE [refuse |-> TRUE, st |-> [s1 EXCEPT !.msg = "modified"]]

Ret(st, r) == [st EXCEPT !.ret = r]

(* ec_edit *)
Edit(st0, path, force, ew) ==
    LET m  == IF ~force /\ ~st0.wa THEN Modified(st0, 1) ELSE [refuse |-> FALSE, st |-> st0]
        (* :ew - "switch without changing #": when the target is open in the third slot or beyond, the alternate buffer
           comes to the front first (after the check of the buffer that is being left) *)
        st == IF ew /\ path # "" /\ FindPath(m.st, path) > 2 THEN Switch(m.st, 2) ELSE m.st
    IN IF m.refuse THEN Ret(m.st, 1)
       ELSE IF path # "" /\ FindPath(st, path) > 0 THEN Ret(Switch(st, FindPath(st, path)), 0)     \* no re-read
       (* a full table reuses its last slot: refused without force if that buffer is modified *)
       ELSE IF path # "" /\ Len(st.tab) = st.nb /\ ~force /\ ~st.wa /\ Modified(st, st.nb).refuse
       THEN Ret(Modified(st, st.nb).st, 1)
       ELSE LET (* a new buffer unless this is a reload of the current one *)
                s1 == IF path # ""
                      THEN LET full == Len(st.tab) = st.nb
                               (* the check of the slot to be reused may have autowritten it *)
                               sx   == IF full /\ ~force /\ ~st.wa THEN Modified(st, st.nb).st ELSE st
                               vict == IF full THEN sx.tab[sx.nb] ELSE NewBuf(0, "")
                               tabn == IF full THEN [sx.tab EXCEPT ![sx.nb] = NewBuf(sx.cnt + 1, path)]
                                       ELSE Append(sx.tab, NewBuf(sx.cnt + 1, path))
                               s0   == [sx EXCEPT !.tab = tabn, !.cnt = sx.cnt + 1,
                                                  !.lost = st.lost \/ (full /\ Differs(vict) /\ ~force /\ ~st.wa)]  \* the last slot is overwritten
                           IN Switch(s0, Len(tabn))
                      ELSE [st EXCEPT !.lost = st.lost \/ (~force /\ ~st.wa /\ Differs(Cur(st)))]
                b  == Cur(s1)
                f  == IF b.path \in DOMAIN s1.disk THEN s1.disk[b.path] ELSE NoFile
                (* the file replaces the whole text (one splice); a missing file leaves the text alone *)
                lb1 == IF f.ex THEN Lb!Edit(b.lb, 0, Len(b.lb.lines), f.lines, TRUE) ELSE b.lb
                lb2 == Lb!Saved(lb1, path # "")
                n   == Len(lb2.lines)
            IN [s1 EXCEPT !.tab[1].lb = lb2, !.tab[1].mtime = IF f.ex THEN f.mt ELSE -1,
                          !.tab[1].synced = lb2.lines,
                          !.row = Max2(0, Min2(s1.row, n - 1)), !.ret = 0, !.msg = IF f.ex THEN "read" ELSE ""]

(* ec_next / ec_prev (ex_next): :e of the neighbouring argument; the position moves only when that succeeded *)
ArgNext(st, dis) ==
    LET idx == IF st.apos < Len(st.args) THEN st.apos + dis ELSE -1
    IN IF idx < 0 \/ idx >= Len(st.args) THEN [st EXCEPT !.ret = 1, !.msg = "nofile"]
       ELSE LET s1 == Edit(st, st.args[idx + 1], FALSE, FALSE) IN
            IF s1.ret # 0 THEN s1 ELSE [s1 EXCEPT !.apos = idx]

(* ec_write: lines [beg, end) of the current buffer to path ("" = its own); whole = no range given *)
Write(st, path0, whole, beg0, end0, force, xonly, fault) ==
    LET b    == Cur(st)
        path == IF path0 = "" THEN b.path ELSE path0
        own  == path = b.path
        n    == Len(b.lb.lines)
        beg  == IF whole THEN 0 ELSE beg0
        end  == IF whole THEN n ELSE end0
        s0   == IF xonly THEN BumpBuf(st, 1) ELSE st
    IN IF xonly /\ ~Dirty(Cur(s0)) THEN Ret(s0, 0)
       ELSE LET r == Save(s0, SubSeq(b.lb.lines, beg + 1, end), path, force, IF own THEN b.mtime ELSE 0, fault) IN
            IF ~r.ok THEN [s0 EXCEPT !.disk = r.disk, !.now = s0.now + 1, !.ret = 1, !.msg = "wfail"]
            ELSE LET named == IF b.path = "" THEN [s0 EXCEPT !.tab[1].path = path] ELSE s0     \* an unnamed buffer takes the name
                     own2  == named.tab[1].path = path
                     full  == beg = 0 /\ end = n
                     lb1   == IF own2 /\ full THEN Lb!Saved(Cur(named).lb, FALSE) ELSE Cur(named).lb
                 IN [named EXCEPT !.disk = r.disk, !.now = s0.now + 1, !.ret = 0, !.msg = "written",
                                  !.tab[1].lb = lb1,
                                  !.tab[1].mtime = IF own2 THEN WriteStamp ELSE Cur(named).mtime,
                                  !.tab[1].synced = IF own2 /\ full THEN b.lb.lines ELSE Cur(named).synced]

(* ec_quit: kind in q wq x xa *)
RECURSIVE QuitLoop(_, _, _, _, _)
QuitLoop(st, i, kind, force, fault) ==
    IF i > Len(st.tab) THEN [st EXCEPT !.quit = TRUE, !.ret = 0,
                                       !.lost = st.lost \/ (~force /\ kind # "xa" /\ \E j \in 1..Len(st.tab) : Differs(st.tab[j]))]
    ELSE IF kind # "xa" /\ ~force
         THEN LET m == Modified(st, i) IN
              IF m.refuse THEN Ret(Switch(m.st, i), 0) ELSE QuitLoop(m.st, i + 1, kind, force, fault)
         ELSE IF kind = "xa"
         THEN LET b == st.tab[i]
                  r == Save(st, b.lb.lines, b.path, force, b.mtime, fault) IN
              IF ~r.ok THEN [Switch([st EXCEPT !.disk = r.disk, !.now = st.now + 1], i) EXCEPT !.ret = 0, !.msg = "wfail"]
              (* every buffer written is recorded as saved, with the new time stamp of its file *)
              ELSE QuitLoop([st EXCEPT !.disk = r.disk, !.now = st.now + 1, !.tab[i].synced = b.lb.lines,
                                       !.tab[i].lb = Lb!Saved(b.lb, FALSE), !.tab[i].mtime = WriteStamp],
                            i + 1, kind, force, "")
         ELSE QuitLoop(st, i + 1, kind, force, fault)
Quit(st, kind, force, fault) ==
    IF kind \in {"wq", "x", "xa"}
    THEN LET w == Write(st, "", TRUE, 0, 0, force, kind \in {"x", "xa"}, IF kind = "xa" THEN "" ELSE fault) IN
         IF w.ret # 0 THEN w ELSE QuitLoop(w, 1, kind, force, fault)
    ELSE QuitLoop(st, 1, kind, force, fault)

(* ec_buffer: "num" n, "next", "prev", "alias" k (1 current, 2 alternate, 3 third), "del", "renum" *)
Buffer(st0, how, n, force) ==
    IF how = "del"
    THEN LET t1 == Tail(st0.tab)
             s1 == [st0 EXCEPT !.lost = st0.lost]      \* "b !" carries its force in the argument
         IN IF t1 = <<>> THEN [s1 EXCEPT !.tab = <<NewBuf(s1.cnt + 1, "")>>, !.cnt = s1.cnt + 1, !.row = 0, !.ret = 0]
            ELSE [s1 EXCEPT !.tab = t1, !.row = t1[1].row, !.ret = 0]
    ELSE IF how = "renum"
    THEN [st0 EXCEPT !.tab = [i \in 1..Len(st0.tab) |-> [st0.tab[i] EXCEPT !.id = i]], !.cnt = Len(st0.tab), !.ret = 0]
    ELSE LET ids  == {st0.tab[i].id : i \in 1..Len(st0.tab)}
             cid  == st0.tab[1].id
             want == IF how = "num" THEN (IF n \in ids THEN n ELSE -1)
                     ELSE IF how = "next" THEN (IF \E x \in ids : x > cid THEN CHOOSE x \in ids : x > cid /\ \A y \in ids : y > cid => x <= y ELSE -1)
                     ELSE IF how = "prev" THEN (IF \E x \in ids : x < cid THEN CHOOSE x \in ids : x < cid /\ \A y \in ids : y < cid => x >= y ELSE -1)
                     ELSE (IF n <= Len(st0.tab) THEN st0.tab[n].id ELSE -1)
         IN IF want < 0 THEN [st0 EXCEPT !.ret = 1, !.msg = "nobuf"]
            ELSE LET m == IF ~force /\ ~st0.wa THEN Modified(st0, 1) ELSE [refuse |-> FALSE, st |-> st0] IN
                 IF m.refuse THEN Ret(m.st, 1)
                 ELSE LET idx == CHOOSE i \in 1..Len(m.st.tab) : m.st.tab[i].id = want /\ \A j \in 1..i - 1 : m.st.tab[j].id # want
                      IN Ret(Switch(m.st, idx), 0)

(* editing the current buffer: append k fresh lines after the current line / delete the current line / undo / redo *)
EdAppend(st, k) ==
    LET b == Cur(st)  n == Len(b.lb.lines)
        pos == IF n = 0 THEN 0 ELSE Min2(st.row + 1, n)
        ins == [i \in 1..k |-> st.nid + i - 1]
    IN [st EXCEPT !.tab[1].lb = Lb!Edit(b.lb, pos, pos, ins, TRUE), !.nid = st.nid + k,
                  !.row = Max2(0, pos + k - 1), !.ret = 0]
EdDelete(st) ==
    LET b == Cur(st)  n == Len(b.lb.lines) IN
    IF n = 0 THEN Ret(st, 1)
    (* the current line lies beyond the text (after an undo): it counts as the position after the last line and
       becomes that; nothing is deleted *)
    ELSE IF st.row >= n THEN [st EXCEPT !.row = n, !.ret = 0]
    ELSE [st EXCEPT !.tab[1].lb = Lb!Edit(b.lb, st.row, st.row + 1, <<>>, FALSE), !.ret = 0]
(* ":1": the first line becomes current (and is printed) *)
EdTop(st) == IF Len(Cur(st).lb.lines) = 0 THEN Ret(st, 1) ELSE [st EXCEPT !.row = 0, !.ret = 0]
EdUndo(st) == LET lb == Lb!Undo(Cur(st).lb) IN [st EXCEPT !.tab[1].lb = lb, !.ret = lb.ret]
EdRedo(st) == LET lb == Lb!Redo(Cur(st).lb) IN [st EXCEPT !.tab[1].lb = lb, !.ret = lb.ret]

(* the simple commands that can share a prompt line; no command boundary between them *)
RECURSIVE RunLine(_, _)
RunLine(st, cs) ==
    IF cs = <<>> \/ st.quit THEN st
    ELSE LET c == Head(cs)
             s1 == CASE c.k = "w" -> Write(st, c.path, c.whole, c.beg, c.end, c.force, FALSE, c.fault)
                     [] c.k = "d" -> EdDelete(st)
                     [] c.k = "u" -> EdUndo(st)
                     [] c.k = "redo" -> EdRedo(st)
                     [] c.k = "e" -> Edit(st, c.path, c.force, "ew" \in DOMAIN c /\ c.ew)
                     [] c.k = "top" -> EdTop(st)
         IN RunLine(s1, Tail(cs))

(* one prompt line: the command, then the command boundary on whatever buffer is current afterwards *)
Step(st, c) ==
    LET s0 == [st EXCEPT !.msg = "", !.ret = 0]
        s1 == CASE c.k = "e"     -> Edit(s0, c.path, c.force, "ew" \in DOMAIN c /\ c.ew)
                [] c.k = "w"     -> Write(s0, c.path, c.whole, c.beg, c.end, c.force, FALSE, c.fault)
                (* ":w !cmd" pipes the text to a command: the buffer, its name, its saved point and the files stay as they are *)
                [] c.k = "wp"    -> [s0 EXCEPT !.ret = 0, !.msg = "written"]
                [] c.k \in {"q", "wq", "x", "xa"} -> Quit(s0, c.k, c.force, c.fault)
                [] c.k = "b"     -> Buffer(s0, c.how, c.n, c.force)
                [] c.k = "n"     -> ArgNext(s0, c.dis)
                [] c.k = "a"     -> EdAppend(s0, c.n)
                [] c.k = "d"     -> EdDelete(s0)
                [] c.k = "u"     -> EdUndo(s0)
                [] c.k = "redo"  -> EdRedo(s0)
                [] c.k = "top"   -> EdTop(s0)
                [] c.k = "line"  -> RunLine(s0, c.cs)        \* several commands on one prompt line ("d|w|d")
                [] c.k = "se"    -> IF c.opt = "aw" THEN [s0 EXCEPT !.aw = c.val] ELSE [s0 EXCEPT !.wa = c.val]
                (* external events (not typed): another program touches or rewrites a file *)
                [] c.k = "touch" -> IF s0.disk[c.path].ex THEN [s0 EXCEPT !.disk[c.path].mt = s0.now + 1000, !.now = s0.now + 1001] ELSE s0
                [] c.k = "ext"   -> [s0 EXCEPT !.disk[c.path] = [ex |-> TRUE, lines |-> <<s0.nid>>, mt |-> s0.now + 1000],
                                                !.nid = s0.nid + 1, !.now = s0.now + 1001]
    IN IF c.k \in {"touch", "ext"} \/ s1.quit THEN s1 ELSE BumpBuf(s1, 1)

(***************************************************************************)
(* Properties.                                                              *)
(***************************************************************************)
(* C02: the modified answer never says clean while text and file differ *)
DirtySound(st) == \A i \in 1..Len(st.tab) : ~Dirty(st.tab[i]) => ~Differs(st.tab[i])
(* C02: nothing that differed from its file was discarded without force (quit, eviction, reload) *)
NoLoss(st) == ~st.lost
(* C20 / table shape *)
TableOK(st) == /\ Len(st.tab) >= 1 /\ Len(st.tab) <= st.nb
               /\ \A i, j \in 1..Len(st.tab) : i # j => st.tab[i].id # st.tab[j].id
               /\ \A i \in 1..Len(st.tab) : Lb!GhostMatches(st.tab[i].lb) /\ Lb!AtBoundary(st.tab[i].lb)
(* C20: a command that only switches leaves every buffer's text, log, dirty answer and line alone *)
SameBufs(s, t) ==
    \A i \in 1..Len(s.tab) : \E j \in 1..Len(t.tab) :
        /\ t.tab[j].id = s.tab[i].id /\ t.tab[j].path = s.tab[i].path
        /\ t.tab[j].lb.lines = s.tab[i].lb.lines /\ t.tab[j].lb.hist = s.tab[i].lb.hist /\ t.tab[j].lb.hu = s.tab[i].lb.hu
        /\ Dirty(t.tab[j]) = Dirty(s.tab[i])
        /\ (IF j = 1 THEN t.row ELSE t.tab[j].row) = (IF i = 1 THEN s.row ELSE s.tab[i].row)
=============================================================================
