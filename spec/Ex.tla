--------------------------------- MODULE Ex ---------------------------------
(***************************************************************************)
(* Reference semantics of neatvi's ex line commands (ex.c) over one buffer: *)
(* addresses, a i c d y pu p = k rs @ u redo, s (C14), g / v (C15).          *)
(*                                                                          *)
(* Text: a line is a sequence of code points without its newline; the buffer *)
(* is the `lines' of an Lbuf record (Lbuf.tla supplies the undo log, C04).   *)
(* Commands are records; Unparse gives the text typed at the ex prompt.     *)
(* ExStep(ed, cmd) is the one definition of every command's meaning; the    *)
(* model checker, the generators and the conformance drivers all use it.    *)
(*                                                                          *)
(* Where the property statements are explicit the spec follows them; where  *)
(* they are silent it follows the code (DESIGN.md appendix C).              *)
(***************************************************************************)
EXTENDS Naturals, Integers, Sequences, FiniteSets, TLC, SequencesExt
Rx == INSTANCE Regex
Lb == INSTANCE Lbuf

NL == 10
Max2(a, b) == IF a < b THEN b ELSE a
Min2(a, b) == IF a < b THEN a ELSE b

(* ---- text <-> lines ------------------------------------------------------ *)
RECURSIVE SplitLines(_)
SplitLines(t) ==            \* lbuf_replace(): cut after every NL; a tail without NL is a line
    IF t = <<>> THEN <<>>
    ELSE LET nlpos == {i \in 1..Len(t) : t[i] = NL} IN
         IF nlpos = {} THEN <<t>>
         ELSE LET k == CHOOSE i \in nlpos : \A j \in nlpos : i <= j IN
              <<SubSeq(t, 1, k - 1)>> \o SplitLines(SubSeq(t, k + 1, Len(t)))
RECURSIVE JoinLines(_)
JoinLines(ls) == IF ls = <<>> THEN <<>> ELSE Head(ls) \o <<NL>> \o JoinLines(Tail(ls))

(* ---- editor state --------------------------------------------------------- *)
NoReg == [has |-> FALSE, s |-> <<>>, ln |-> FALSE]
NewEd(regnames, marknames) ==
    [lb    |-> Lb!New,
     row   |-> 0,
     regs  |-> [r \in regnames |-> NoReg],
     marks |-> [m \in marknames |-> [row |-> -1, solid |-> TRUE, known |-> TRUE]],
                  \* solid: the marked line was never replaced; known: not disturbed by undo / redo
     kwd   |-> <<>>, kwddir |-> 0, rep |-> <<>>,
     ic    |-> TRUE,
     out   |-> <<>>,        \* what the last prompt line printed: lines with their NL, "=" answers
     inp   |-> <<>>,        \* input consumed after the command line (text blocks), in order
     gdep  |-> 0,           \* global nesting depth
     typed |-> {},          \* inside a global: the log entries (indices of lb.hist) that hold the text typed for a `c'
     code  |-> FALSE,       \* TRUE: evaluate the operational transcriptions where they differ from the reference
     ret   |-> 0]

Lines(ed) == ed.lb.lines
NLines(ed) == Len(ed.lb.lines)

(* ---- registers (reg.c) ---------------------------------------------------- *)
IsUpper(c) == c >= 65 /\ c <= 90
IsAlpha(c) == IsUpper(c) \/ (c >= 97 /\ c <= 122)
HasNL(s) == \E i \in 1..Len(s) : s[i] = NL
RegPutRaw(regs, c, s, ln) ==
    LET lc  == IF IsUpper(c) THEN c + 32 ELSE c
        pre == IF IsUpper(c) /\ lc \in DOMAIN regs /\ regs[lc].has THEN regs[lc].s ELSE <<>>
    IN IF lc \in DOMAIN regs THEN [regs EXCEPT ![lc] = [has |-> TRUE, s |-> pre \o s, ln |-> ln]] ELSE regs
(* numbered registers 1..9 shift when a line-wise or multi-line text goes to the unnamed or a letter register *)
RECURSIVE ShiftNum(_, _)
ShiftNum(regs, i) ==     \* i = 8 .. 1: register i+1 := register i (only those that exist)
    IF i = 0 THEN regs
    ELSE ShiftNum(IF (48 + i) \in DOMAIN regs /\ regs[48 + i].has
                  THEN RegPutRaw(regs, 48 + i + 1, regs[48 + i].s, regs[48 + i].ln) ELSE regs, i - 1)
RegPut(regs, c0, s, ln) ==
    LET c  == IF c0 = 34 THEN 0 ELSE c0          \* the register named " is the unnamed one, for writing as for reading
        r1 == IF (ln \/ HasNL(s)) /\ (c = 0 \/ IsAlpha(c))
              THEN RegPutRaw(ShiftNum(regs, 8), 49, s, ln) ELSE regs
    IN RegPutRaw(r1, c, s, ln)
RegGet(regs, c) == LET k == IF c = 34 THEN 0 ELSE c IN
                   IF k \in DOMAIN regs THEN regs[k] ELSE NoReg

(* ---- marks under a splice (lbuf_replace) ---------------------------------- *)
MarkAfter(mk, pos, ndel, nins, nonnull) ==
    IF mk.row < 0 THEN mk
    ELSE IF ~nonnull /\ mk.row >= pos /\ mk.row < pos + ndel THEN [mk EXCEPT !.row = -1]
    ELSE IF mk.row >= pos + ndel THEN [mk EXCEPT !.row = mk.row + nins - ndel]
    ELSE IF mk.row >= pos + nins THEN [mk EXCEPT !.row = pos + nins - 1, !.solid = FALSE]
    ELSE IF mk.row >= pos THEN [mk EXCEPT !.solid = FALSE]      \* on a replaced line
    ELSE mk

(* lbuf_edit through the editor: text lines ins (nonnull: a non-NULL text pointer) replace [beg, end) *)
EdEdit(ed, ins, nonnull, beg, end) ==
    LET n  == NLines(ed)
        b  == Min2(beg, n)
        e  == Min2(end, n)
    IN IF b = e /\ ~nonnull THEN ed
       ELSE [ed EXCEPT !.lb = Lb!Edit(ed.lb, beg, end, ins, nonnull),
                       !.marks = [m \in DOMAIN ed.marks |-> MarkAfter(ed.marks[m], b, e - b, Len(ins), nonnull)]]

(* ---- pattern search on a line -------------------------------------------- *)
(* rstr_find(re, line, n, grps, 0) from position `from' (1-based) with the whole line as context:
   <<>> or <<so, eo, groups>> (0-based offsets; groups[k+1] = span of group k of the pattern) *)
Compile(pat) == Rx!ParseRe(Rx!WrapSet(<<pat>>))
FindFrom(cp, line, ic, from) ==
    IF ~cp.ok THEN <<>>
    ELSE LET cx == [s |-> line \o <<NL>>, ic |-> ic, nb |-> FALSE, ne |-> FALSE, nl |-> TRUE]
             r  == Rx!SearchFrom(cp.node, Max2(cp.ngrp, 2), from, cx)
         IN IF r = <<>> THEN <<>> ELSE <<r[1], r[2], SubSeq(r[3], 2, Len(r[3]))>>
LineMatches(cp, line, ic) == FindFrom(cp, line, ic, 1) # <<>>

(* ---- addresses (ex_lineno, ex_search, ex_region) --------------------------- *)
(* addr = [b, n, m, re, offs]; b in none dot last num mark fwd bwd; offs: sequence of signed integers *)
RECURSIVE SumSeq(_)
SumSeq(s) == IF s = <<>> THEN 0 ELSE Head(s) + SumSeq(Tail(s))

(* the search of an address: ed1 = ed with the remembered pattern updated *)
AddrSearch(ed, a) ==
    LET dirNew == IF a.b = "fwd" THEN 1 ELSE -1
        ed1 == IF a.re # <<>> THEN [ed EXCEPT !.kwd = a.re, !.kwddir = dirNew] ELSE ed
    IN IF ed1.kwddir = 0 THEN <<-1, ed1>>
       ELSE LET cp == Compile(ed1.kwd)
                dir == ed1.kwddir
                n == NLines(ed1)
                (* the scan starts next to the current line and stops at once if that is not a line *)
                cand == {r \in 0..n - 1 : (IF dir > 0 THEN r > ed1.row ELSE r < ed1.row /\ ed1.row - 1 < n)
                                           /\ LineMatches(cp, Lines(ed1)[r + 1], ed1.ic)}
            IN IF ~cp.ok \/ cand = {} THEN <<-1, ed1>>
               ELSE <<IF dir > 0 THEN CHOOSE r \in cand : \A q \in cand : r <= q
                      ELSE CHOOSE r \in cand : \A q \in cand : r >= q, ed1>>

(* ex_lineno(): <<0-based line number (possibly out of range), ed'>> *)
NoLine == 0 - 1073741824
AddrLine(ed, a) ==
    LET base == CASE a.b = "dot"  -> <<ed.row, ed>>
                  [] a.b = "none" -> <<ed.row, ed>>
                  [] a.b = "last" -> <<NLines(ed) - 1, ed>>
                  [] a.b = "num"  -> <<a.n - 1, ed>>
                  [] a.b = "mark" -> <<IF a.m \in DOMAIN ed.marks THEN ed.marks[a.m].row ELSE -1, ed>>
                  [] OTHER        -> AddrSearch(ed, a)
    (* a mark that is not set and a pattern that is not found name no line: the value makes every range with it invalid *)
    IN IF a.b = "mark" /\ base[1] < 0 THEN <<NoLine, ed>>
       ELSE IF a.b \notin {"dot", "none", "last", "num", "mark"} /\ base[1] < 0 THEN <<NoLine, base[2]>>
       ELSE <<base[1] + SumSeq(a.offs), base[2]>>

(* ex_region(): loc = sequence of [a |-> addr, sep |-> "," | ";" | ""]; PctLoc stands for "%" *)
NoAddr == [b |-> "none", n |-> 0, m |-> 0, re |-> <<>>, offs |-> <<>>]
PctLoc == <<[a |-> NoAddr, sep |-> "%"]>>
IsPct(loc) == Len(loc) = 1 /\ loc[1].sep = "%"
RECURSIVE RegionLoop(_, _, _, _, _)
RegionLoop(ed, loc, k, beg, end) ==
    IF k > Len(loc) THEN <<beg, end, ed>>
    ELSE LET r   == AddrLine(ed, loc[k].a)
             e1  == r[1] + 1
             b1  == IF k = 1 THEN e1 - 1 ELSE end - 1
             (* ";" makes the address the current line - if it is a line of the buffer *)
             ed1 == IF loc[k].sep = ";" /\ e1 >= 1 /\ e1 <= NLines(r[2]) THEN [r[2] EXCEPT !.row = e1 - 1] ELSE r[2]
         IN RegionLoop(ed1, loc, k + 1, b1, e1)
Region(ed, loc) ==      \* [ok, beg, end, ed]
    IF IsPct(loc) THEN [ok |-> TRUE, beg |-> 0, end |-> NLines(ed), ed |-> ed]
    ELSE IF loc = <<>> THEN     \* a current line beyond the buffer (after an undo) counts as the position after the last line
         LET b == IF ed.row < NLines(ed) THEN ed.row ELSE NLines(ed) IN
         [ok |-> TRUE, beg |-> b, end |-> IF b = NLines(ed) THEN b ELSE b + 1, ed |-> ed]
    ELSE LET r  == RegionLoop(ed, loc, 1, 0, 0)
             b  == IF r[1] < 0 /\ r[2] = 0 THEN 0 ELSE r[1]
             n  == NLines(r[3])
         IN [ok |-> ~(b < 0 \/ b >= n) /\ ~(r[2] < b \/ r[2] > n), beg |-> b, end |-> r[2], ed |-> r[3]]

(* ---- substitute (C14) ------------------------------------------------------ *)
(* expansion of the replacement text: \0-\9 group text (empty when unset), \c -> c *)
RECURSIVE Expand(_, _, _)
Expand(rep, line, m) ==     \* m = <<so, eo, groups>>
    IF rep = <<>> THEN <<>>
    ELSE IF rep[1] = 92 /\ Len(rep) >= 2
         THEN (IF rep[2] >= 48 /\ rep[2] <= 57
               THEN LET g == rep[2] - 48 IN
                    IF g + 1 <= Len(m[3]) /\ m[3][g + 1][1] >= 0
                    THEN SubSeq(line, m[3][g + 1][1] + 1, m[3][g + 1][2]) ELSE <<>>
               ELSE <<rep[2]>>) \o Expand(SubSeq(rep, 3, Len(rep)), line, m)
         ELSE <<rep[1]>> \o Expand(Tail(rep), line, m)

(* declarative: the successive non-overlapping matches of the original line, left to right, each judged
   in the context of the whole line; after an empty match the scan moves on by one character *)
RECURSIVE MatchesOf(_, _, _, _, _)
MatchesOf(cp, line, ic, from, all) ==
    LET m == FindFrom(cp, line, ic, from) IN
    IF m = <<>> \/ from > Len(line) + 1 THEN <<>>
    ELSE IF ~all THEN <<m>>
    ELSE LET nxt == IF m[2] > m[1] THEN m[2] + 1 ELSE m[2] + 2 IN    \* 1-based position after the match (+1 if empty)
         IF nxt > Len(line) THEN <<m>>     \* the code stops at the end of the line (before the newline)
         ELSE <<m>> \o MatchesOf(cp, line, ic, nxt, all)
(* rewrite one line given its matches *)
RECURSIVE Rewrite(_, _, _, _)
Rewrite(line, ms, rep, pos) ==     \* pos: 0-based offset of the first character not yet copied
    IF ms = <<>> THEN SubSeq(line, pos + 1, Len(line))
    ELSE LET m == Head(ms) IN
         SubSeq(line, pos + 1, m[1]) \o Expand(rep, line, m)
         \o (IF m[2] = m[1] /\ m[1] < Len(line) THEN <<line[m[1] + 1]>> ELSE <<>>)   \* empty match: copy one character
         \o Rewrite(line, Tail(ms), rep, IF m[2] = m[1] THEN Min2(m[1] + 1, Len(line)) ELSE m[2])
SubLine(cp, line, ic, rep, all) ==
    LET ms == MatchesOf(cp, line, ic, 1, all) IN
    IF ms = <<>> THEN <<FALSE, line>> ELSE <<TRUE, Rewrite(line, ms, rep, 0)>>

RECURSIVE NumStr(_)
NumStr(n) == IF n < 10 THEN <<48 + n>> ELSE NumStr(n \div 10) \o <<48 + (n % 10)>>
OffStr(o) == IF o >= 0 THEN <<43>> \o NumStr(o) ELSE <<45>> \o NumStr(-o)
RECURSIVE OffsStr(_)
OffsStr(os) == IF os = <<>> THEN <<>> ELSE OffStr(Head(os)) \o OffsStr(Tail(os))
RECURSIVE TextBlock(_)
TextBlock(ls) == IF ls = <<>> THEN <<46, NL>> ELSE Head(ls) \o <<NL>> \o TextBlock(Tail(ls))


(* operational: the loop of ec_substitute(), which searches the rest of the line as a string of its own
   (RE_NOTBOL once past the start) - word boundaries at the restart position do not see the character
   before it (known finding KF-sub-wordctx) *)
RECURSIVE SubCode(_, _, _, _, _, _)
SubCode(cp, line, ic, rp, all, off) ==
    LET suffix == SubSeq(line, off + 1, Len(line))
        cx == [s |-> suffix \o <<NL>>, ic |-> ic, nb |-> off > 0, ne |-> FALSE, nl |-> TRUE]
        r  == Rx!Search(cp.node, Max2(cp.ngrp, 2), cx)
    IN IF r = <<>> THEN <<FALSE, suffix>>
       ELSE LET m    == <<r[1], r[2], SubSeq(r[3], 2, Len(r[3]))>>
                head == SubSeq(suffix, 1, r[1]) \o Expand(rp, suffix, m)
                step == IF r[2] <= 0 /\ suffix # <<>> THEN 1 ELSE 0
                cp1  == IF step = 1 THEN <<suffix[1]>> ELSE <<>>
                off2 == off + r[2] + step
            IN IF off2 >= Len(line) \/ ~all THEN <<TRUE, head \o cp1 \o SubSeq(line, off2 + 1, Len(line))>>
               ELSE <<TRUE, head \o cp1 \o SubCode(cp, line, ic, rp, all, off2)[2]>>

(* ---- commands ------------------------------------------------------------------ *)
RangeText(ed, beg, end) == JoinLines(SubSeq(Lines(ed), beg + 1, Min2(end, NLines(ed))))
(* the lines of [beg, end) that exist, each with its newline *)
PrintRange(ed, beg, end) == LET cnt == Min2(end, NLines(ed)) - beg IN
                            IF cnt <= 0 THEN <<>> ELSE [i \in 1..cnt |-> Lines(ed)[beg + i] \o <<NL>>]
UpperLine(l) == [i \in 1..Len(l) |-> IF l[i] >= 97 /\ l[i] <= 122 THEN l[i] - 32 ELSE l[i]]
Fail(ed) == [ed EXCEPT !.ret = 1]
Ok(ed)   == [ed EXCEPT !.ret = 0]
ClampRow(r, n) == Max2(0, Min2(n - 1, r))     \* the current line never becomes negative

RECURSIVE ExStep(_, _), ExRun(_, _), SubLoop(_, _, _, _, _, _), GlobLoop(_, _, _, _, _, _)

(* substitute on lines beg..end-1 *)
SubLoop(ed, cp, i, end, rep, all) ==
    IF i >= end \/ i >= NLines(ed) THEN ed
    ELSE LET r == IF ed.code THEN SubCode(cp, Lines(ed)[i + 1], ed.ic, rep, all, 0)
                  ELSE SubLine(cp, Lines(ed)[i + 1], ed.ic, rep, all) IN
         SubLoop(IF r[1] THEN EdEdit(ed, <<r[2]>>, TRUE, i, i + 1) ELSE ed, cp, i + 1, end, rep, all)

(* global: the scan of ec_glob over mark bits; `ids' is the set of line positions still marked, kept as
   positions that move with the lines (see GlobShift) *)
GlobShift(marked, pos, ndel, nins, fresh) ==      \* how lbuf_replace moves ln_glob[]; fresh: the new lines are typed text
    {q \in {IF p < pos THEN p
            ELSE IF p >= pos + ndel THEN p + nins - ndel
            ELSE IF p < pos + nins /\ ~fresh THEN p          \* a replaced (edited) line keeps its bit
            ELSE -1 : p \in marked} : q >= 0}
(* the marked set is threaded through the edits of one execution by re-deriving it from the
   log entries the execution appended *)
RECURSIVE ApplyLog(_, _, _, _, _)
ApplyLog(marked, hist, from, to, typed) ==
    IF from > to THEN marked
    ELSE ApplyLog(GlobShift(marked, hist[from].pos, Len(hist[from].del), Len(hist[from].ins), from \in typed), hist, from + 1, to, typed)
GlobLoop(ed, cp, neg, cmds, i, marked) ==
    IF i >= NLines(ed) THEN ed
    ELSE LET hit == LineMatches(cp, Lines(ed)[i + 1], ed.ic) # neg
             ed1 == IF hit THEN ExRun([ed EXCEPT !.row = i], cmds) ELSE ed     \* the line is current during the execution
             stop == hit /\ ed1.ret # 0
             (* the edits made by this execution moved the mark bits with the lines *)
             mk1 == IF hit THEN ApplyLog(marked, ed1.lb.hist, ed.lb.hu + 1, ed1.lb.hu, ed1.typed) ELSE marked
             (* the next line visited is the lowest line still marked, wherever the execution has moved it (C15: "each line of
                the original range that still exists exactly once, in increasing order"); the marked lines keep their
                order, so this is the successor in the original range.  An earlier version transcribed the scan of
                ec_glob, which restarted at MIN(i, current line) and lost marked lines that had slid below it *)
             rest == mk1
         IN IF stop THEN ed1
            ELSE IF rest = {} THEN ed1
            ELSE LET nx == CHOOSE p \in rest : \A q \in rest : p <= q IN
                 GlobLoop(ed1, cp, neg, cmds, nx, mk1 \ {nx})

ExRun(ed, cmds) ==      \* ex_exec(): the commands of one line; the value of the last one is returned
    IF cmds = <<>> THEN ed ELSE ExRun(ExStep(ed, Head(cmds)), Tail(cmds))

ExStep(ed0, c) ==
    LET k == c.k IN
    CASE k \in {"a", "i", "c"} ->
           LET r == Region([ed0 EXCEPT !.inp = ed0.inp \o TextBlock(c.txt)], c.loc)  ed == r.ed  n == NLines(ed) IN
           IF ~r.ok /\ ~(r.beg = 0 /\ r.end = 0) THEN Fail(ed)
           ELSE LET beg == IF k = "a" /\ r.beg < r.end THEN r.beg + 1 ELSE r.beg      \* address 0: before line 1
                    end == IF k = "c" THEN r.end ELSE beg
                    ed1 == EdEdit(ed, c.txt, TRUE, beg, end)
                    (* the text typed for a `c' is new: no running global visits it (C15), although lbuf_replace hands the
                       bits of the replaced lines on to it *)
                    ty  == IF k = "c" /\ ed.gdep > 0 /\ ed1.lb.hu > ed.lb.hu THEN ed1.typed \cup {ed1.lb.hu} ELSE ed1.typed
                IN Ok([ed1 EXCEPT !.row = ClampRow(Min2(end, n) + NLines(ed1) - n - 1, NLines(ed1)), !.typed = ty])
      [] k = "d" ->
           LET r == Region(ed0, c.loc)  ed == r.ed IN
           IF ~r.ok \/ NLines(ed) = 0 THEN Fail(ed)
           ELSE Ok([EdEdit([ed EXCEPT !.regs = RegPut(ed.regs, c.reg, RangeText(ed, r.beg, r.end), TRUE)],
                           <<>>, FALSE, r.beg, r.end) EXCEPT !.row = r.beg])
      [] k = "y" ->
           LET r == Region(ed0, c.loc)  ed == r.ed IN
           IF ~r.ok \/ NLines(ed) = 0 THEN Fail(ed)
           ELSE Ok([ed EXCEPT !.regs = RegPut(ed.regs, c.reg, RangeText(ed, r.beg, r.end), TRUE)])
      [] k = "pu" ->
           LET g == RegGet(ed0.regs, c.reg) IN
           IF ~g.has THEN Fail(ed0)
           ELSE LET r == Region(ed0, c.loc)  ed == r.ed  n == NLines(ed) IN
                IF ~r.ok THEN Fail(ed)
                ELSE LET ed1 == EdEdit(ed, SplitLines(g.s), TRUE, r.end, r.end) IN
                     Ok([ed1 EXCEPT !.row = ClampRow(r.end + NLines(ed1) - n - 1, NLines(ed1))])
      [] k = "p" ->
           LET r == Region(ed0, c.loc)  ed == r.ed IN
           IF ~r.ok THEN Fail(ed)
           ELSE Ok([ed EXCEPT !.out = ed.out \o PrintRange(ed, r.beg, r.end),
                              !.row = Max2(r.beg, r.end - 1)])
      [] k = "=" ->
           LET r == Region(ed0, c.loc)  ed == r.ed IN
           IF ~r.ok THEN Fail(ed) ELSE Ok([ed EXCEPT !.out = Append(ed.out, NumStr(r.end) \o <<NL>>)])
      [] k = "k" ->
           LET r == Region(ed0, c.loc)  ed == r.ed IN
           IF ~r.ok THEN Fail(ed)
           ELSE Ok(IF c.m \in DOMAIN ed.marks
                   THEN [ed EXCEPT !.marks[c.m] = [row |-> r.end - 1, solid |-> TRUE, known |-> TRUE]] ELSE ed)
      [] k = "rs" -> Ok([ed0 EXCEPT !.regs = RegPut(ed0.regs, c.reg, JoinLines(c.txt), TRUE),
                                    !.inp = ed0.inp \o TextBlock(c.txt)])
      [] k = "null" ->     \* a bare address: the current line first moves down by one, then the range is printed
           LET n0 == NLines(ed0)
               e0 == [ed0 EXCEPT !.row = IF ed0.row + 1 < n0 THEN ed0.row + 1 ELSE ed0.row]
           IN IF c.loc = <<>> /\ e0.row >= n0 THEN Fail(e0)
              ELSE LET r == Region(e0, c.loc)  ed == r.ed IN
                   IF ~r.ok THEN Fail(ed)
                   ELSE Ok([ed EXCEPT !.out = ed.out \o PrintRange(ed, r.beg, r.end),
                                      !.row = Max2(r.beg, r.end - 1)])
      [] k = "s" ->
           LET r == Region(ed0, c.loc)  ed == r.ed IN
           IF ~r.ok THEN Fail(ed)
           ELSE LET ed1 == [ed EXCEPT !.kwd = IF c.re # <<>> THEN c.re ELSE ed.kwd,
                                      !.kwddir = IF c.re # <<>> THEN 1 ELSE ed.kwddir,
                                      !.rep = c.rep]
                    cp == Compile(ed1.kwd)
                IN IF ed1.kwddir = 0 \/ ~cp.ok THEN Fail(ed1)
                   ELSE Ok(SubLoop(ed1, cp, r.beg, r.end, ed1.rep, c.g))
      [] k \in {"g", "v"} ->
           LET r == Region(ed0, IF c.loc = <<>> /\ ed0.gdep = 0 THEN PctLoc ELSE c.loc)  ed == r.ed IN
           IF ~r.ok THEN Fail(ed)
           ELSE LET ed1 == [ed EXCEPT !.kwd = IF c.re # <<>> THEN c.re ELSE ed.kwd,
                                      !.kwddir = IF c.re # <<>> THEN 1 ELSE ed.kwddir]
                    cp == Compile(ed1.kwd)
                IN IF ed1.kwddir = 0 \/ ~cp.ok THEN Fail(ed1)
                   (* an empty range (2,1 or address 0) holds no line to visit *)
                   ELSE IF r.beg < 0 \/ r.beg >= r.end THEN Ok(ed1)
                   ELSE LET g == GlobLoop([ed1 EXCEPT !.gdep = ed1.gdep + 1], cp, k = "v", c.cmds, r.beg,
                                          (r.beg + 1)..(r.end - 1))
                        IN Ok([g EXCEPT !.gdep = ed1.gdep, !.typed = IF ed1.gdep = 0 THEN {} ELSE g.typed])
      [] k = "u" ->
           LET lb == Lb!Undo(ed0.lb) IN
           [ed0 EXCEPT !.lb = lb, !.ret = lb.ret,
                       !.marks = IF lb.ret = 0 THEN [m \in DOMAIN ed0.marks |-> [ed0.marks[m] EXCEPT !.solid = FALSE, !.known = FALSE]]
                                 ELSE ed0.marks]
      [] k = "redo" ->
           LET lb == Lb!Redo(ed0.lb) IN
           [ed0 EXCEPT !.lb = lb, !.ret = lb.ret,
                       !.marks = IF lb.ret = 0 THEN [m \in DOMAIN ed0.marks |-> [ed0.marks[m] EXCEPT !.solid = FALSE, !.known = FALSE]]
                                 ELSE ed0.marks]
      [] k = "r" ->        \* :r file - c.file = <<>>: no such file, <<lines>>: its lines; they go after the last addressed line
           LET r == Region(ed0, c.loc)  ed == r.ed  n == NLines(ed) IN
           IF ~r.ok \/ c.file = <<>> THEN Fail(ed)
           ELSE LET pos == IF n > 0 THEN r.end ELSE 0
                    ed1 == EdEdit(ed, c.file[1], TRUE, pos, pos)
                IN Ok([ed1 EXCEPT !.row = Max2(0, r.end + NLines(ed1) - n - 1)])
      [] k = "!" ->        \* :range!filter with the option writeany set; the filter of the scripts maps a-z to A-Z.
                           \* The addressed lines are replaced by the filter's output; the current line stays.
           LET r == Region(ed0, c.loc)  ed == r.ed IN
           IF ~r.ok THEN Fail(ed)
           ELSE Ok(EdEdit(ed, [i \in 1..(Min2(r.end, NLines(ed)) - r.beg) |-> UpperLine(Lines(ed)[r.beg + i])], TRUE, r.beg, r.end))
      [] k = "@" ->        \* :range@r - the commands held by register r run as a command line of their own (with its own
                           \* command boundary), the current line first set to the start of the range
           LET g == RegGet(ed0.regs, c.reg) IN
           IF ~g.has THEN Fail(ed0)
           ELSE LET r == Region(ed0, c.loc)  ed == r.ed IN
                IF ~r.ok THEN Fail(ed)
                ELSE ExRun([ed EXCEPT !.row = r.beg], c.cmds)          \* no undo step of its own: one step per prompt line (C04)
      [] k = "se" -> Ok([ed0 EXCEPT !.ic = c.val])        \* :se ic / :se noic

(* one line typed at the prompt: ex_command() = ex_exec() + the command boundary (lbuf_modified) *)
ExLine(ed, cmds) ==
    LET e1 == ExRun([ed EXCEPT !.out = <<>>, !.inp = <<>>], cmds) IN [e1 EXCEPT !.lb = Lb!Bump(e1.lb)]

(* ---- rendering commands as the text typed at the prompt ---------------------- *)
(* a pattern between delimiters d: the delimiter itself is written \d (re_read() removes the backslash) *)
RECURSIVE Delimited(_, _)
Delimited(re, d) == IF re = <<>> THEN <<>>
                    ELSE IF re[1] = 92 /\ Len(re) >= 2 THEN <<92, re[2]>> \o Delimited(SubSeq(re, 3, Len(re)), d)
                    ELSE IF re[1] = d THEN <<92, d>> \o Delimited(Tail(re), d)
                    ELSE <<re[1]>> \o Delimited(Tail(re), d)
AddrStr(a) ==
    (CASE a.b = "dot"  -> <<46>>
       [] a.b = "none" -> <<>>
       [] a.b = "last" -> <<36>>
       [] a.b = "num"  -> (IF "lz" \in DOMAIN a /\ a.lz THEN <<48>> ELSE <<>>) \o NumStr(a.n)      \* numbers are decimal, leading zeros or not
       [] a.b = "mark" -> <<39, a.m>>
       [] a.b = "fwd"  -> <<47>> \o Delimited(a.re, 47) \o <<47>>
       [] a.b = "bwd"  -> <<63>> \o Delimited(a.re, 63) \o <<63>>) \o OffsStr(a.offs)
RECURSIVE LocStr(_)
LocStr(loc) == IF IsPct(loc) THEN <<37>>
               ELSE IF loc = <<>> THEN <<>>
               ELSE AddrStr(Head(loc).a) \o (IF Head(loc).sep = "," THEN <<44>> ELSE IF Head(loc).sep = ";" THEN <<59>> ELSE <<>>)
                    \o LocStr(Tail(loc))
RegStr(r) == IF r = 0 THEN <<>> ELSE <<32, r>>
(* the first line of a command and the input lines it consumes after it *)
RECURSIVE CmdStr(_), CmdsStr(_)
CmdStr(c) ==
    LET k == c.k IN
    CASE k \in {"a", "i", "c"} -> LocStr(c.loc) \o (IF k = "a" THEN <<97>> ELSE IF k = "i" THEN <<105>> ELSE <<99>>)
      [] k = "d"  -> LocStr(c.loc) \o <<100>> \o RegStr(c.reg)
      [] k = "y"  -> LocStr(c.loc) \o <<121>> \o RegStr(c.reg)
      [] k = "pu" -> LocStr(c.loc) \o <<112, 117>> \o RegStr(c.reg)
      [] k = "p"  -> LocStr(c.loc) \o <<112>>
      [] k = "="  -> LocStr(c.loc) \o <<61>>
      [] k = "k"  -> LocStr(c.loc) \o <<107, c.m>>
      [] k = "rs" -> <<114, 115>> \o RegStr(c.reg)
      (* an empty replacement without flags may be typed without its closing delimiters: s/re/ and s/re *)
      [] k = "s"  -> IF "short" \in DOMAIN c /\ c.short > 0 /\ c.rep = <<>> /\ ~c.g
                     THEN LocStr(c.loc) \o <<115, 47>> \o Delimited(c.re, 47) \o (IF c.short = 1 /\ c.re # <<>> THEN <<47>> ELSE <<>>)
                     ELSE LocStr(c.loc) \o <<115, 47>> \o Delimited(c.re, 47) \o <<47>> \o Delimited(c.rep, 47) \o <<47>>
                          \o (IF c.g THEN <<103>> ELSE <<>>)
      (* spellings: g / global, v / vglobal / g! / global! (field sp, optional) *)
      [] k \in {"g", "v"} -> LET sp == IF "sp" \in DOMAIN c THEN c.sp ELSE 0
                                  name == IF k = "g" THEN (IF sp = 2 THEN <<103, 108, 111, 98, 97, 108>> ELSE <<103>>)
                                          ELSE (CASE sp = 1 -> <<103, 33>> [] sp = 2 -> <<103, 108, 111, 98, 97, 108, 33>> [] OTHER -> <<118>>)
                              IN LocStr(c.loc) \o name \o <<47>> \o Delimited(c.re, 47) \o <<47>> \o CmdsStr(c.cmds)
      [] k = "r"  -> LocStr(c.loc) \o <<114, 32>> \o c.name
      [] k = "!"  -> LocStr(c.loc) \o <<33, 116, 114, 32, 97, 45, 122, 32, 65, 45, 90>>          \* !tr a-z A-Z
      [] k = "@"  -> LocStr(c.loc) \o <<64, c.reg>>
      [] k = "u"  -> <<117>>
      [] k = "redo" -> <<114, 101, 100, 111>>
      [] k = "null" -> LocStr(c.loc)
      [] k = "se" -> IF c.val THEN <<115, 101, 32, 105, 99>> ELSE <<115, 101, 32, 110, 111, 105, 99>>
CmdsStr(cs) == IF cs = <<>> THEN <<>>
               ELSE CmdStr(Head(cs)) \o (IF Len(cs) > 1 THEN <<124>> ELSE <<>>) \o CmdsStr(Tail(cs))
(* everything typed for one prompt line made of the commands cs: the line itself and the input that its
   executions consumed (text blocks, also those read afresh by every execution inside a global) *)
Typed(cs, after) == CmdsStr(cs) \o <<NL>> \o after.inp
=============================================================================
