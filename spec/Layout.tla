------------------------------- MODULE Layout -------------------------------
(***************************************************************************)
(* Bidirectional reordering (dir.c) and the assignment of screen columns    *)
(* (ren.c): properties C18 and C17.  A line is a sequence of code points    *)
(* including its final newline.  Offsets and columns are 0-based.           *)
(* The character tables (width classes, right-to-left set, neutrals,        *)
(* placeholders) come from UcTables, regenerated from the tree under test;  *)
(* the presentation forms come from ShapeRef (Unicode character database).  *)
(***************************************************************************)
EXTENDS Naturals, Integers, Sequences, FiniteSets, TLC, SequencesExt, UcTables, ShapeRef

NL == 10
InTab(c, tab) == \E i \in 1..Len(tab) : tab[i][1] <= c /\ c <= tab[i][2]
SortedTab(tab) == /\ \A i \in 1..Len(tab) : tab[i][1] <= tab[i][2]
                  /\ \A i \in 1..Len(tab) - 1 : tab[i][2] < tab[i + 1][1]
TablesOK == SortedTab(DwTab) /\ SortedTab(ZwTab) /\ SortedTab(BellTab)

(* ---- width classes (uc_wid, uc_isbell, ren_cwid) ----------------------------- *)
IsZw(c) == c >= 768 /\ InTab(c, ZwTab)
IsDw(c) == c >= 4352 /\ InTab(c, DwTab)
UcWid(c) == IF IsZw(c) THEN 0 ELSE IF IsDw(c) THEN 2 ELSE 1
IsBell(c) == IF c = 32 \/ c = 9 \/ c = NL \/ (c >= 32 /\ c < 127) THEN FALSE ELSE IsZw(c) \/ InTab(c, BellTab)
PlaceWid(c) == IF \E i \in 1..Len(PlaceTab) : PlaceTab[i][1] = c
               THEN PlaceTab[CHOOSE i \in 1..Len(PlaceTab) : PlaceTab[i][1] = c][2] ELSE -1
(* cells taken by character c when it starts at column col: a tab reaches the next multiple of 8, a placeholder
   its declared width, an unprintable or zero-width character is drawn as a one-cell mark *)
CWid(c, col) == IF c = 9 THEN 8 - (col % 8)
                ELSE IF PlaceWid(c) >= 0 THEN PlaceWid(c)
                ELSE IF IsBell(c) THEN 1
                ELSE UcWid(c)

(* ---- direction (dir.c) ---------------------------------------------------------- *)
IsL(c) == (c >= 48 /\ c <= 57) \/ (c >= 65 /\ c <= 90) \/ (c >= 97 /\ c <= 122) \/ c = 95
IsR(c) == c \in R2LSet
IsN(c) == c \in NeutSet
(* dir_context(): +1 left-to-right, -1 right-to-left *)
Ctx(line, td) ==
    LET c == IF line = <<>> THEN 0 ELSE line[1] IN
    IF td > 1 THEN 1 ELSE IF td < -1 THEN -1
    ELSE IF td = 0 /\ c < 128 THEN 1
    ELSE IF IsR(c) THEN -1 ELSE IF IsL(c) THEN 1
    ELSE IF td < 0 THEN -1 ELSE 1
(* the configured direction marks ($...$, \*[...], \cmd{...}, \word) can only start at a backslash or a dollar sign *)
HasMarkChar(line) == \E i \in 1..Len(line) : line[i] = 92 \/ line[i] = 36

(* the opposite-direction runs of the text t = line without its newline, as <<first, last>> (1-based, inclusive):
   in a left-to-right line  R (N|R)* R ; in a right-to-left line  L [^ R \ ` $ ']* L ; leftmost, longest, disjoint *)
Inner(c, ctx) == IF ctx > 0 THEN IsR(c) \/ IsN(c) ELSE ~IsR(c) /\ c \notin {92, 96, 36, 39}
Edge(c, ctx) == IF ctx > 0 THEN IsR(c) ELSE IsL(c)
RECURSIVE RunsFrom(_, _, _)
RunsFrom(t, ctx, i) ==
    IF i > Len(t) THEN <<>>
    ELSE IF ~Edge(t[i], ctx) THEN RunsFrom(t, ctx, i + 1)
    ELSE LET ends == {j \in (i + 1)..Len(t) : Edge(t[j], ctx) /\ \A k \in (i + 1)..(j - 1) : Inner(t[k], ctx)} IN
         IF ends = {} THEN RunsFrom(t, ctx, i + 1)
         ELSE LET j == CHOOSE x \in ends : \A y \in ends : y <= x IN <<<<i, j>>>> \o RunsFrom(t, ctx, j + 1)
Runs(t, ctx) == RunsFrom(t, ctx, 1)

(* dir_reorder(): vis[i] = visual index (0-based) of the i-th character (1-based); each run reversed in place,
   everything else - and the newline - keeps its place.  Defined for lines without mark characters. *)
Reorder(line, ctx) ==
    LET n == Len(line)
        t == IF n > 0 /\ line[n] = NL THEN SubSeq(line, 1, n - 1) ELSE line
        rs == Runs(t, ctx)
        RunOf(i) == {k \in 1..Len(rs) : rs[k][1] <= i /\ i <= rs[k][2]}
    IN [i \in 1..n |-> IF i > Len(t) \/ RunOf(i) = {} THEN i - 1
                       ELSE LET r == rs[CHOOSE k \in RunOf(i) : TRUE] IN (r[1] + r[2] - i) - 1]
IsPerm(vis) == {vis[i] : i \in 1..Len(vis)} = 0..(Len(vis) - 1)

(* ---- columns (ren_position) -------------------------------------------------------- *)
(* does ren_position() reorder at all?  (order = 2: always; order = 1: only lines with a multi-byte character) *)
Reorders(line, order, lim) == Len(line) <= lim /\ (order = 2 \/ (order = 1 /\ \E i \in 1..Len(line) : line[i] > 127))
(* pos[i] (i = 1..n): first column of the i-th character; pos[n+1]: total width.  vis: visual index of every character *)
RECURSIVE ColsFrom(_, _, _, _)
ColsFrom(line, inv, k, col) ==       \* inv[k]: the character (1-based) shown in k-th place; returns <<place k.. columns>>
    IF k > Len(line) THEN <<col>>
    ELSE <<col>> \o ColsFrom(line, inv, k + 1, col + CWid(line[inv[k]], col))
Position(line, vis) ==
    LET n == Len(line)
        inv == [k \in 1..n |-> CHOOSE i \in 1..n : vis[i] = k - 1]
        cols == ColsFrom(line, inv, 1, 0)            \* columns by place, n+1 entries
    IN [i \in 1..(n + 1) |-> IF i = n + 1 THEN cols[n + 1] ELSE cols[vis[i] + 1]]
Ident(n) == [i \in 1..n |-> i - 1]

(* ---- the conversions of ren.c over a position array p (n characters) ------------------ *)
PosPrev(p, n, x, cur) == LET s == {p[i] : i \in {j \in 1..n : p[j] + (IF cur THEN 0 ELSE 1) <= x}} IN
                         IF s = {} THEN -1 ELSE CHOOSE v \in s : \A w \in s : w <= v
PosNext(p, n, x, cur) == LET s == {p[i] : i \in {j \in 1..n : p[j] - (IF cur THEN 0 ELSE 1) >= x}} IN
                         IF s = {} THEN -1 ELSE CHOOSE v \in s : \A w \in s : v <= w
RenPos(p, n, off) == IF off < n THEN p[off + 1] ELSE 0
RenOff(p, n, x) == LET q == PosPrev(p, n, x, TRUE)
                       s == {i \in 1..n : p[i] = q} IN
                   IF s = {} THEN 0 ELSE (CHOOSE i \in s : \A j \in s : j <= i) - 1
CharAt(line, off) == IF off >= 0 /\ off < Len(line) THEN line[off + 1] ELSE 0
RenCursor(line, p, n, x) ==
    LET q0 == PosPrev(p, n, x, TRUE)
        q1 == IF CharAt(line, RenOff(p, n, q0)) = NL THEN PosPrev(p, n, q0, FALSE) ELSE q0
        nx == PosNext(p, n, q1, FALSE)
        r  == (IF nx >= 0 THEN nx ELSE p[n + 1]) - 1
    IN IF r >= 0 THEN r ELSE 0
RenNoeol(line, o0) == LET n == Len(line)
                          o == IF o0 >= n THEN (IF n - 1 > 0 THEN n - 1 ELSE 0) ELSE o0 IN
                      IF o > 0 /\ CharAt(line, o) = NL THEN o - 1 ELSE o
RenNext(line, p, n, x, dir) ==
    LET q0 == PosPrev(p, n, x, TRUE)
        q1 == IF dir >= 0 THEN PosNext(p, n, q0, FALSE) ELSE PosPrev(p, n, q0, FALSE)
    IN IF CharAt(line, RenOff(p, n, q1)) # NL THEN q1 ELSE -1

(* ---- C17 as stated: tiling and round trip, evaluated on the reference itself ------------ *)
Tiling(line, vis, p) ==
    LET n == Len(line)
        inv == [k \in 1..n |-> CHOOSE i \in 1..n : vis[i] = k - 1] IN
    /\ (n > 0 => p[inv[1]] = 0)
    /\ \A k \in 1..n : (IF k = n THEN p[n + 1] ELSE p[inv[k + 1]]) = p[inv[k]] + CWid(line[inv[k]], p[inv[k]])
    /\ \A i \in 1..n : CWid(line[i], p[i]) >= 1
RoundTrip(line, p) == LET n == Len(line) IN \A o \in 0..(n - 1) : RenOff(p, n, RenPos(p, n, o)) = o

(* ---- shaping (uc_shape) ------------------------------------------------------------------ *)
IsComb(c) == (c >= 1611 /\ c <= 1621) \/ (c >= 64606 /\ c <= 64611) \/ c = 1648       \* transparent for joining
FormRow(c) == IF \E i \in 1..Len(FormTab) : FormTab[i][1] = c
              THEN FormTab[CHOOSE i \in 1..Len(FormTab) : FormTab[i][1] = c] ELSE <<c, 0, 0, 0, 0>>
(* joining behaviour from the presentation forms a letter has: dual-joining letters have initial and medial forms,
   right-joining ones only a final form; tatweel and ZWJ join on both sides without changing shape *)
JoinsNext(c) == c = 1600 \/ c = 8205 \/ FormRow(c)[3] # 0 \/ FormRow(c)[4] # 0        \* can connect to the following letter
JoinsPrev(c) == c = 1600 \/ c = 8205 \/ FormRow(c)[5] # 0 \/ FormRow(c)[4] # 0        \* can connect to the preceding letter
RECURSIVE PrevLetter(_, _), NextLetter(_, _)
PrevLetter(line, i) == IF i < 1 THEN 0 ELSE IF IsComb(line[i]) THEN PrevLetter(line, i - 1) ELSE line[i]
NextLetter(line, i) == IF i > Len(line) THEN 0 ELSE IF IsComb(line[i]) THEN NextLetter(line, i + 1) ELSE line[i]
(* the letters the editor shapes: Arabic hamza .. ghain, tatweel .. yeh, peh, tcheh, jeh, keheh, gaf, farsi yeh *)
ShapedLetters == (1569..1594) \cup (1600..1610) \cup {1662, 1670, 1688, 1705, 1711, 1740}
(* is out the right result of shaping the i-th character? *)
ShapeOK(line, i, out) ==
    LET c == line[i]
        row == FormRow(c)
        jp == JoinsNext(PrevLetter(line, i - 1)) /\ JoinsPrev(c)
        jn == JoinsNext(c) /\ JoinsPrev(NextLetter(line, i + 1))
        want == IF jp /\ jn THEN row[4] ELSE IF jp THEN row[5] ELSE IF jn THEN row[3] ELSE c
    IN IF c \notin ShapedLetters THEN out = c              \* everything else is never altered
       ELSE out = (IF want = 0 THEN c ELSE want)
=============================================================================
