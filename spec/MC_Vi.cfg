SPECIFICATION MCSpec
CONSTANTS MaxSteps = 2
          MCText = 1
INVARIANT Inv
PROPERTY StepProps
VIEW MCView
CHECK_DEADLOCK FALSE
