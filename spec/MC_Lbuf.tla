----------------------------- MODULE MC_Lbuf -----------------------------
(* Exhaustive small-scope model of the line-buffer interface (C04, C02)   *)
(* and the labelled state graph that harness/lbufwalk.c replays (M3).     *)
EXTENDS Lbuf, Json, IOUtils

CONSTANTS MaxLen,   \* longest buffer
          MaxIns,   \* most lines inserted by one splice
          MaxHist,  \* longest log
          MaxSeq,   \* largest sequence number (bounds the number of command boundaries)
          MaxId,    \* number of distinct line identities
          Dump      \* TRUE: print the successor table of every distinct state

VARIABLES st, nid, path   \* path: ghost, the calls that led here (excluded from the VIEW)

Fresh(k) == [i \in 1..k |-> nid + i - 1]

(* every call of the interface that is meaningful in state s *)
Ops(s) ==
    LET n == Len(s.lines) IN
    {[op |-> "edit", beg |-> b, end |-> e, ins |-> Fresh(k), nonnull |-> (k > 0)] :
        b \in 0..n, e \in 0..(n + 1), k \in 0..MaxIns} \cup
    {[op |-> "edit", beg |-> b, end |-> b, ins |-> <<>>, nonnull |-> TRUE] : b \in 0..n} \cup
    {[op |-> "undo"], [op |-> "redo"], [op |-> "bump"],
     [op |-> "saved", clear |-> FALSE], [op |-> "saved", clear |-> TRUE]}

Allowed(s, op) ==
    /\ op.op = "edit" => /\ op.beg <= op.end
                         /\ Len(s.lines) - (Min2(op.end, Len(s.lines)) - Min2(op.beg, Len(s.lines)))
                              + Len(op.ins) <= MaxLen
                         /\ nid + Len(op.ins) - 1 <= MaxId
                         /\ s.hu + 1 <= MaxHist
    /\ op.op \in {"bump", "saved"} => s.useq < MaxSeq

(* compact call encoding shared with harness/lbufwalk.c *)
OpJ(op) == IF op.op = "edit" THEN <<1, op.beg, op.end, Len(op.ins), IF op.nonnull THEN 1 ELSE 0>>
           ELSE IF op.op = "undo" THEN <<2>> ELSE IF op.op = "redo" THEN <<3>>
           ELSE IF op.op = "bump" THEN <<4>> ELSE <<5, IF op.clear THEN 1 ELSE 0>>

Init == st = New /\ nid = 1 /\ path = <<>>
Next == \E op \in Ops(st) :
          /\ Allowed(st, op)
          /\ st' = Step(st, op)
          /\ nid' = IF op.op = "edit" THEN nid + Len(op.ins) ELSE nid
          /\ path' = IF Dump THEN Append(path, OpJ(op)) ELSE path
Spec == Init /\ [][Next]_<<st, nid, path>>
View == <<st, nid>>

Inv == /\ GhostMatches(st) /\ AtBoundary(st) /\ DirtySound(st) /\ SeqsMonotone(st)
       /\ st.hu <= Len(st.hist)
ActionProps == [][UndoExact(st, st') /\ RedoExact(st, st') /\ EndsFail(st, st')]_<<st, nid, path>>

(* projection compared with the C implementation: <<lines, ret, dirty>> *)
Proj(s) == <<s.lines, s.ret, IF Dirty(s) THEN 1 ELSE 0>>
DumpInv ==
    Dump => PrintT(<<"G", ToJson([p |-> path,
              s |-> SetToSeq({<<OpJ(op), Proj(Step(st, op))>> :
                                 op \in {o \in Ops(st) : Allowed(st, o)}})])>>)
=============================================================================
