------------------------------ MODULE TraceTerm ------------------------------
(***************************************************************************)
(* Trace validation for C19.  The trace (NDJSON, $TRACE) interleaves, in    *)
(* program order, the control functions neatvi wrote to its terminal        *)
(* (ev = "tty", lexed by harness/ttylex.py) and the editor state at every   *)
(* command boundary (ev = "vi": buffer lines, window origin, cursor).       *)
(* The terminal model of Term.tla consumes the control functions; at every  *)
(* command boundary the grid must equal a repaint of the recorded window    *)
(* and the terminal cursor must be on the cursor character's cell.          *)
(* Violations are accumulated, never blocking; ev = "reset" starts the next *)
(* session.                                                                 *)
(***************************************************************************)
EXTENDS Term, Json, IOUtils
VARIABLES l, t, viol, nchk

Tr == ndJsonDeserialize(IOEnv.TRACE)
Rec == Tr[l]

Flag(ok, what, detail) == IF ok THEN <<>> ELSE <<[line |-> l, what |-> what, detail |-> detail]>>

(* the checks at a command boundary *)
Check(rec, tm) ==
    LET rows == rec.rows  cols == rec.cols
        (* with two windows (^Ws) the active one begins at terminal row beg; the other window is not constrained: it keeps
           what it showed when it was left, whatever has happened to its buffer since *)
        beg == IF "beg" \in DOMAIN rec THEN rec.beg ELSE 0
        bad == {k \in 0..(rows - 1) : tm.grid[beg + k + 1] # RenderRow(rec.lines, rec.top, k, rec.left, cols)}
        k0 == IF bad = {} THEN 0 ELSE CHOOSE k \in bad : \A j \in bad : k <= j
        line == IF rec.row < Len(rec.lines) THEN rec.lines[rec.row + 1] ELSE <<>>
        cc == CursorCell(line, rec.xcol, rec.left)
    IN Flag(tm.bad = "", "terminal", tm.bad)
       \o Flag(rec.top <= rec.row /\ rec.row < rec.top + rows, "window", <<"cursor line outside the window", rec.top, rec.row, rows>>)
       \o Flag(bad = {}, "screen", <<"row", k0, "shown", IF bad = {} THEN <<>> ELSE tm.grid[beg + k0 + 1],
                                      "repaint", IF bad = {} THEN <<>> ELSE RenderRow(rec.lines, rec.top, k0, rec.left, cols)>>)
       \o Flag(cc >= 0 /\ cc < cols, "hwindow", <<"the cursor column is outside the columns shown", cc, rec.left, cols>>)
       \o Flag(tm.r = beg + rec.row - rec.top /\ tm.c = Max2(0, Min2(cc, cols - 1)), "cursor",
               <<"terminal cursor", tm.r, tm.c, "expected", beg + rec.row - rec.top, cc>>)

Init == l = 1 /\ t = NewTerm(24, 80) /\ viol = <<>> /\ nchk = 0
Next == /\ l <= Len(Tr)
        /\ l' = l + 1
        /\ CASE Rec.ev = "reset" -> t' = NewTerm(Rec.R, Rec.C) /\ UNCHANGED <<viol, nchk>>
             [] Rec.ev = "tty"   -> t' = ApplyOps(t, Rec.ops) /\ UNCHANGED <<viol, nchk>>
             [] Rec.ev = "vi"    -> /\ t' = [t EXCEPT !.bad = ""]
                                    /\ IF Rec.chk = 1 THEN viol' = viol \o Check(Rec, t) /\ nchk' = nchk + 1
                                       ELSE UNCHANGED <<viol, nchk>>
             [] OTHER            -> UNCHANGED <<t, viol, nchk>>
Spec == Init /\ [][Next]_<<l, t, viol, nchk>>

(* fires in the last state: prints what was found *)
Report == l = Len(Tr) + 1 => PrintT(<<"VIOL", ToJson([violations |-> viol, checked |-> nchk])>>)
Complete == TLCGet("stats").diameter - 1 = Len(Tr)
=============================================================================
