SPECIFICATION Spec
INVARIANT Report
POSTCONDITION Complete
CHECK_DEADLOCK FALSE
