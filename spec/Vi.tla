--------------------------------- MODULE Vi ---------------------------------
(***************************************************************************)
(* Reference semantics of neatvi's visual mode (vi.c, mot.c, led.c):        *)
(* motions (C07), searches (C13), operators / inserts / puts / registers    *)
(* (C08), repeat and macros (C09).  The text and the registers are the      *)
(* editor record of Ex.tla; columns come from Layout.tla.                   *)
(*                                                                          *)
(* A line as seen by the cursor code includes its newline: offsets run      *)
(* 0 .. n where n is the offset of the newline.  ViStep(vs, c) is the one    *)
(* definition of a command's meaning; Keys(c) is what is typed for it.      *)
(***************************************************************************)
EXTENDS Ex, Layout
\* Ex gives: Lines, NLines, EdEdit, RegPut, RegGet, SplitLines, JoinLines, Compile, FindFrom, Max2, Min2, NL (=10)

NewVi(regnames, marknames) ==
    [ed |-> [NewEd(regnames, marknames) EXCEPT
                !.marks = [m \in marknames \cup {39} |-> [row |-> -1, solid |-> TRUE, known |-> TRUE, off |-> 0]]],
     row |-> 0, off |-> 0, xcol |-> 0,
     chl |-> 0, chcmd |-> 0,          \* last f/F/t/T character and command
     pcol |-> 0,                      \* column asked for by |
     soset |-> FALSE, so |-> 0,       \* line offset of the last search ("/re/+1")
     ai |-> TRUE,
     rows |-> 23, top |-> 0,          \* text rows of the window; first row shown
     scroll |-> 0,                    \* the count remembered by ^D / ^U
     msg |-> "", ok |-> TRUE]

NR(vs) == NLines(vs.ed)
HasLn(vs, r) == r >= 0 /\ r < NR(vs)
FL(vs, r) == IF HasLn(vs, r) THEN Lines(vs.ed)[r + 1] \o <<NL>> ELSE <<>>      \* lbuf_get(): the line with its newline
Slen(l) == Len(l)
Noeol(l, o) == RenNoeol(l, o)
IsSpace(c) == c \in {9, 10, 11, 12, 13, 32}
IsAlphaC(c) == c > 127 \/ (c >= 65 /\ c <= 90) \/ (c >= 97 /\ c <= 122)
Kind(c) == IF IsSpace(c) THEN 0 ELSE IF IsAlphaC(c) \/ (c >= 48 /\ c <= 57) \/ c = 95 THEN 1 ELSE 2
RECURSIVE IndentsFrom(_, _)
IndentsFrom(l, k) == IF k <= Len(l) /\ IsSpace(l[k]) THEN IndentsFrom(l, k + 1) ELSE k - 1
Indents(l) == IndentsFrom(l, 1)                 \* lbuf_indents(): counts the newline of a blank line too
Eol(l) == IF Len(l) > 0 THEN Len(l) - 1 ELSE 0
ChrAt(vs, r, o) == LET l == FL(vs, r) IN IF o >= 0 /\ o < Len(l) THEN l[o + 1] ELSE 0

(* columns under the default options (order 1, textdirection 0, linelimit 256) *)
PosOf(l) == Position(l, IF Reorders(l, 1, 256) THEN Reorder(l, Ctx(l, 0)) ELSE Ident(Len(l)))
Off2Col(l, o) == IF l = <<>> THEN 0 ELSE RenPos(PosOf(l), Len(l), o)
Col2Off(l, x) == IF l = <<>> THEN 0 ELSE RenOff(PosOf(l), Len(l), x)

(* ---- stepping over the text (mot.c) ------------------------------------------ *)
LnNext(vs, dir, r, o) == LET o1 == o + dir IN
                         IF o1 < 0 \/ ~HasLn(vs, r) \/ o1 >= Slen(FL(vs, r)) THEN <<FALSE, r, o>> ELSE <<TRUE, r, o1>>
NextRO(vs, dir, r0, o) ==         \* lbuf_next(): <<ok, r, o>>
    LET r == IF dir < 0 /\ r0 >= NR(vs) THEN Max2(0, NR(vs) - 1) ELSE r0
        a == LnNext(vs, dir, r, o) IN
    IF a[1] THEN a
    ELSE IF ~HasLn(vs, r + dir) THEN <<FALSE, r, o>>
    ELSE <<TRUE, r + dir, IF dir > 0 THEN 0 ELSE Eol(FL(vs, r + dir))>>
InKind(c, kind) == (kind = 3 /\ Kind(c) # 0) \/ (kind # 3 /\ kind # 0 /\ Kind(c) = kind)
RECURSIVE WordLastLoop(_, _, _, _, _)
WordLastLoop(vs, kind, dir, r, o) ==       \* <<failed, r, o>>
    IF InKind(ChrAt(vs, r, o), kind)
    THEN LET a == NextRO(vs, dir, r, o) IN IF ~a[1] THEN <<TRUE, r, o>> ELSE WordLastLoop(vs, kind, dir, a[2], a[3])
    ELSE LET b == NextRO(vs, -dir, r, o) IN <<FALSE, b[2], b[3]>>
WordLast(vs, kind, dir, r, o) ==
    IF kind = 0 \/ ~InKind(ChrAt(vs, r, o), kind) THEN <<FALSE, r, o>> ELSE WordLastLoop(vs, kind, dir, r, o)
RECURSIVE WordBegLoop(_, _, _, _, _)
WordBegLoop(vs, dir, r, o, nl) ==          \* <<failed, r, o>>
    IF IsSpace(ChrAt(vs, r, o))
    THEN LET nl1 == nl + (IF ChrAt(vs, r, o) = NL THEN 1 ELSE 0) IN
         IF nl1 = 2 THEN <<FALSE, r, o>>
         ELSE LET a == NextRO(vs, dir, r, o) IN IF ~a[1] THEN <<TRUE, r, o>> ELSE WordBegLoop(vs, dir, a[2], a[3], nl1)
    ELSE <<FALSE, r, o>>
WordBeg(vs, big, dir, r0, o0) ==
    LET k  == IF big THEN 3 ELSE Kind(ChrAt(vs, r0, o0))
        w  == WordLast(vs, k, dir, r0, o0)
        nl == IF ChrAt(vs, w[2], w[3]) = NL THEN 1 ELSE 0
        a  == NextRO(vs, dir, w[2], w[3])
    IN IF ~a[1] THEN <<TRUE, w[2], w[3]>> ELSE WordBegLoop(vs, dir, a[2], a[3], nl)
RECURSIVE WordEndLoop(_, _, _, _, _)
WordEndLoop(vs, dir, r, o, nl) ==          \* <<status, r, o>>: "fail" / "stop" (two newlines) / "go"
    IF IsSpace(ChrAt(vs, r, o))
    THEN LET a == NextRO(vs, dir, r, o) IN
         IF ~a[1] THEN <<"fail", r, o>>
         ELSE LET nl1 == nl + (IF ChrAt(vs, a[2], a[3]) = NL THEN 1 ELSE 0) IN
              IF nl1 = 2 THEN (IF dir < 0 THEN LET b == NextRO(vs, -dir, a[2], a[3]) IN <<"stop", b[2], b[3]>> ELSE <<"stop", a[2], a[3]>>)
              ELSE WordEndLoop(vs, dir, a[2], a[3], nl1)
    ELSE <<"go", r, o>>
WordEnd(vs, big, dir, r0, o0) ==           \* <<failed, r, o>>
    LET s1 == IF ~IsSpace(ChrAt(vs, r0, o0)) THEN NextRO(vs, dir, r0, o0) ELSE <<TRUE, r0, o0>> IN
    IF ~s1[1] THEN <<TRUE, r0, o0>>
    ELSE LET nl0 == IF ~IsSpace(ChrAt(vs, r0, o0)) /\ dir < 0 /\ ChrAt(vs, s1[2], s1[3]) = NL THEN 1 ELSE 0
             nl1 == nl0 + (IF dir > 0 /\ ChrAt(vs, s1[2], s1[3]) = NL THEN 1 ELSE 0)
             w   == WordEndLoop(vs, dir, s1[2], s1[3], nl1)
         IN IF w[1] = "fail" THEN <<TRUE, w[2], w[3]>>
            ELSE IF w[1] = "stop" THEN <<FALSE, w[2], w[3]>>
            ELSE LET k == IF big THEN 3 ELSE Kind(ChrAt(vs, w[2], w[3])) IN WordLast(vs, k, dir, w[2], w[3])

(* a motion repeated cnt times; it stops (keeping what it reached) when a step fails *)
RECURSIVE Repeat(_, _, _, _, _)
Repeat(vs, Step(_, _, _), cnt, r, o) ==
    IF cnt = 0 THEN <<r, o>>
    ELSE LET a == Step(vs, r, o) IN IF a[1] THEN <<a[2], a[3]>> ELSE Repeat(vs, Step, cnt - 1, a[2], a[3])

(* lbuf_findchar(): <<found, off>> *)
RECURSIVE FindCharLoop(_, _, _, _, _)
FindCharLoop(l, c, dir, n, o) ==
    IF n = 0 THEN <<TRUE, o>>
    ELSE LET o1 == o + dir IN
         IF o1 < 0 \/ o1 >= Len(l) THEN <<FALSE, o>>
         ELSE FindCharLoop(l, c, dir, IF l[o1 + 1] = c THEN n - 1 ELSE n, o1)
FindChar(l, c, cmd, n0, o) ==
    LET d0  == IF cmd \in {"f", "t"} THEN 1 ELSE -1
        dir == IF n0 < 0 THEN -d0 ELSE d0
        n   == IF n0 < 0 THEN -n0 ELSE n0
        a   == FindCharLoop(l, c, dir, n, o)
    IN IF l = <<>> \/ ~a[1] THEN <<FALSE, o>>
       ELSE IF cmd \in {"t", "T"} THEN (IF a[2] - dir < 0 \/ (dir < 0 /\ a[2] - dir >= Len(l)) THEN a ELSE <<TRUE, a[2] - dir>>)
       ELSE a

(* lbuf_paragraphbeg() *)
RECURSIVE SkipRows(_, _, _, _)
SkipRows(vs, dir, r, empty) ==
    IF HasLn(vs, r) /\ ((Lines(vs.ed)[r + 1] = <<>>) = empty) THEN SkipRows(vs, dir, r + dir, empty) ELSE r
Paragraph(vs, dir, r) == Max2(0, Min2(SkipRows(vs, dir, SkipRows(vs, dir, r, TRUE), FALSE), NR(vs) - 1))

(* lbuf_pair(): <<found, r, o>> *)
Pairs == <<40, 41, 91, 93, 123, 125>>
RECURSIVE PairStart(_, _, _), PairScan(_, _, _, _, _, _)
PairStart(vs, r, o) == LET c == ChrAt(vs, r, o) IN IF c = 0 THEN -1 ELSE IF \E i \in 1..6 : Pairs[i] = c THEN o ELSE PairStart(vs, r, o + 1)
PairScan(vs, r, o, idx, dep, dir) ==
    LET a == NextRO(vs, dir, r, o) IN
    IF ~a[1] THEN <<FALSE, r, o>>
    ELSE LET c == ChrAt(vs, a[2], a[3])
             other == Pairs[IF idx % 2 = 1 THEN idx + 1 ELSE idx - 1]
             d1 == (IF c = other THEN dep - 1 ELSE dep)
             d2 == IF c = Pairs[idx] THEN d1 + 1 ELSE d1
         IN IF d2 = 0 THEN <<TRUE, a[2], a[3]>> ELSE PairScan(vs, a[2], a[3], idx, d2, dir)
Pair(vs, r, o) ==
    LET s == PairStart(vs, r, o) IN
    IF s < 0 THEN <<FALSE, r, o>>
    ELSE LET idx == CHOOSE i \in 1..6 : Pairs[i] = ChrAt(vs, r, s) IN PairScan(vs, r, s, idx, 1, IF idx % 2 = 1 THEN 1 ELSE -1)

(* ---- searching (lbuf_search, vi_search): C13 ------------------------------------- *)
(* the starts of the successive non-overlapping matches of the pattern in a whole line, judged in the context of
   the whole line, as <<offset, length>>; after an empty match the scan moves on by one character *)
RECURSIVE StartsFrom(_, _, _, _)
StartsFrom(cp, line, ic, from) ==
    LET m == FindFrom(cp, line, ic, from) IN
    IF from > Len(line) + 1 \/ m = <<>> THEN <<>>
    ELSE LET nxt == IF m[2] > m[1] THEN m[2] + 1 ELSE m[2] + 2 IN
         IF nxt > Len(line) THEN <<<<m[1], m[2] - m[1]>>>> ELSE <<<<m[1], m[2] - m[1]>>>> \o StartsFrom(cp, line, ic, nxt)
Starts(cp, line, ic) == StartsFrom(cp, line, ic, 1)
(* one search step from (r, o): <<found, r, o, len>>.  Forward: the first match starting after o on row r, else the
   first match of the nearest following row that has one; backward: the last match starting before o on row r,
   else the last one of the nearest preceding row; no wrap-around *)
RECURSIVE SearchRows(_, _, _, _, _)
SearchRows(vs, cp, dir, r, o0) ==
    IF ~HasLn(vs, r) THEN <<FALSE, 0, 0, 0>>
    ELSE LET line == Lines(vs.ed)[r + 1]
             (* forward on the cursor's row: the leftmost position after the cursor at which a match begins *)
             fw == IF dir > 0 /\ o0 # -2 /\ o0 + 1 <= Len(line) THEN FindFrom(cp, line, vs.ed.ic, o0 + 2) ELSE <<>>
             st == IF dir > 0 /\ o0 # -2 THEN (IF fw = <<>> \/ fw[1] > Len(line) THEN <<>> ELSE <<<<fw[1], fw[2] - fw[1]>>>>)
                   ELSE Starts(cp, line, vs.ed.ic)
             ok == IF o0 = -2 \/ dir > 0 THEN {k \in 1..Len(st) : TRUE}                      \* another row: any match
                   ELSE {k \in 1..Len(st) : st[k][1] < o0}
         IN IF ok # {} THEN LET k == IF dir > 0 THEN CHOOSE x \in ok : \A y \in ok : x <= y ELSE CHOOSE x \in ok : \A y \in ok : x >= y
                            IN <<TRUE, r, st[k][1], st[k][2]>>
            ELSE SearchRows(vs, cp, dir, r + dir, -2)

(* operational: the loop of lbuf_search(), which searches the rest of the line as a string of its own (RE_NOTBOL once past the
   start): word boundaries at the restart position do not see the character before it (known finding KF-search-wordctx) *)
FindSuffix(cp, l, ic, off) ==       \* l with its newline; <<>> or <<so, eo>> relative to off
    LET suffix == SubSeq(l, off + 1, Len(l))
        cx == [s |-> suffix, ic |-> ic, nb |-> off > 0, ne |-> FALSE, nl |-> TRUE]
        r == IF cp.ok THEN Rx!Search(cp.node, Max2(cp.ngrp, 2), cx) ELSE <<>>
    IN IF r = <<>> THEN <<>> ELSE <<r[1], r[2]>>
RECURSIVE CodeScan(_, _, _, _, _, _, _, _)
CodeScan(cp, l, ic, dir, onrow, o0, off, best) ==      \* best: <<found, o, len>>
    LET m == FindSuffix(cp, l, ic, off) IN
    IF m = <<>> THEN best
    ELSE IF dir < 0 /\ onrow /\ off + m[1] >= o0 THEN best
    ELSE LET b1 == <<TRUE, off + m[1], m[2] - m[1]>>
             off1 == off + (IF m[2] > m[1] THEN m[2] ELSE m[2] + 1)
         IN IF dir > 0 \/ off1 >= Len(l) - 1 \/ l[off1 + 1] = NL THEN b1
            ELSE CodeScan(cp, l, ic, dir, onrow, o0, off1, b1)
RECURSIVE SearchRowsCode(_, _, _, _, _, _)
SearchRowsCode(vs, cp, dir, r, r0, o0) ==
    IF ~HasLn(vs, r) THEN <<FALSE, 0, 0, 0>>
    ELSE LET l == FL(vs, r)
             off == IF dir > 0 /\ r = r0 THEN Min2(o0 + 1, Len(l)) ELSE 0
             b == IF off >= Len(l) THEN <<FALSE, 0, 0>> ELSE CodeScan(cp, l, vs.ed.ic, dir, r = r0, o0, off, <<FALSE, 0, 0>>)
         IN IF b[1] THEN <<TRUE, r, b[2], b[3]>> ELSE SearchRowsCode(vs, cp, dir, r + dir, r0, o0)
SearchStep(vs, cp, dir, r, o) == IF vs.ed.code THEN SearchRowsCode(vs, cp, dir, r, r, o) ELSE SearchRows(vs, cp, dir, r, o)
RECURSIVE SearchN(_, _, _, _, _, _, _)
SearchN(vs, cp, dir, cnt, r, o, fwdcmd) ==
    LET a == SearchStep(vs, cp, dir, r, o) IN
    IF ~a[1] THEN a
    ELSE IF cnt = 1 THEN a
    (* "a count repeats the search": N/re is /re followed by n, N - 1 times.  (The pinned tree advanced the position by the length
       of the match between the repetitions of a typed "/" and so skipped a match beginning right where the previous one ended;
       the reference had transcribed that, wrongly - see known_findings.jsonl, fixed in a651967.) *)
    ELSE SearchN(vs, cp, dir, cnt - 1, a[2], Noeol(FL(vs, a[2]), a[3]), fwdcmd)      \* from where the cursor would be (never the terminator)

(* ---- motions: <<status, vs', r, o>>; status 0 = not a motion, -1 = failed, else the motion (a string) ------------ *)
(* m = [k, ch, re, so]; cnt: effective count (0: none given) *)
LineMotions == {"+", "-", "_", "'", "j", "k", "G", "H", "L", "M", "dbl", "N%"}
MotionLn(vs, m, cnt0, r) ==        \* <<ok, row>>
    LET cnt == IF cnt0 = 0 THEN 1 ELSE cnt0  n == NR(vs) IN
    CASE m.k = "+"   -> <<TRUE, Min2(r + cnt, n - 1)>>
      [] m.k = "j"   -> <<TRUE, Min2(r + cnt, n - 1)>>
      [] m.k = "-"   -> <<TRUE, Max2(r - cnt, 0)>>
      [] m.k = "k"   -> <<TRUE, Max2(r - cnt, 0)>>
      [] m.k = "_"   -> <<TRUE, Min2(r + cnt - 1, n - 1)>>
      [] m.k = "dbl" -> <<TRUE, Min2(r + cnt - 1, n - 1)>>
      [] m.k = "'"   -> LET mc == IF m.ch = 96 THEN 39 ELSE m.ch IN
                        IF mc \in DOMAIN vs.ed.marks /\ vs.ed.marks[mc].row >= 0 THEN <<TRUE, vs.ed.marks[mc].row>> ELSE <<FALSE, r>>
      [] m.k = "G"   -> <<TRUE, IF cnt0 = 0 THEN n - 1 ELSE cnt - 1>>
      [] m.k = "H"   -> <<TRUE, Min2(vs.top + cnt - 1, n - 1)>>
      [] m.k = "L"   -> <<TRUE, Min2(vs.top + vs.rows - cnt, n - 1)>>
      [] m.k = "M"   -> <<TRUE, Min2(vs.top + vs.rows \div 2, n - 1)>>
      [] m.k = "N%"  -> IF cnt > 100 THEN <<FALSE, r>> ELSE <<TRUE, (Max2(0, n - 1) * cnt) \div 100>>
MotionLnFix(a) == IF a[1] /\ a[2] < 0 THEN <<TRUE, 0>> ELSE a

(* vi_curword(): the word under the cursor *)
CurWord(vs, r, o) ==
    LET l == FL(vs, r) IN
    IF l = <<>> THEN <<>>
    ELSE LET b0 == Noeol(l, o)
             RECURSIVE E(_), B(_)
             E(k) == IF k < Len(l) /\ Kind(l[k + 1]) = 1 THEN E(k + 1) ELSE k
             B(k) == IF k > 0 /\ Kind(l[k]) = 1 THEN B(k - 1) ELSE k
             e == E(b0)  b == B(b0)
         IN IF b >= e THEN <<>> ELSE SubSeq(l, b + 1, e)

MotionCh(vs, m, cnt0, r, o) ==     \* <<ok, vs', r, o>> for the character motions
    LET cnt == IF cnt0 = 0 THEN 1 ELSE cnt0
        l   == FL(vs, r)
        dir == Ctx(l, 0)
    IN
    CASE m.k \in {"f", "F", "t", "T"} ->
           LET a == FindChar(l, m.ch, m.k, cnt, o)
               v1 == [vs EXCEPT !.chl = m.ch, !.chcmd = m.k] IN
           <<a[1], v1, r, a[2]>>
      [] m.k = ";" -> IF vs.chl = 0 THEN <<FALSE, vs, r, o>> ELSE LET a == FindChar(l, vs.chl, vs.chcmd, cnt, o) IN <<a[1], vs, r, a[2]>>
      [] m.k = "," -> IF vs.chl = 0 THEN <<FALSE, vs, r, o>> ELSE LET a == FindChar(l, vs.chl, vs.chcmd, -cnt, o) IN <<a[1], vs, r, a[2]>>
      [] m.k \in {"h", "l"} ->
           LET d == IF m.k = "h" THEN -dir ELSE dir
               RECURSIVE Go(_, _)
               Go(k, oo) == IF k = 0 \/ l = <<>> THEN oo
                            ELSE LET p == PosOf(l)
                                     x == RenNext(l, p, Len(l), RenPos(p, Len(l), oo), d)
                                 IN IF x < 0 THEN oo ELSE Go(k - 1, RenOff(p, Len(l), x))
           IN <<TRUE, vs, r, Go(cnt, o)>>
      [] m.k \in {"w", "W"} -> LET a == Repeat(vs, LAMBDA v, rr, oo : WordBeg(v, m.k = "W", 1, rr, oo), cnt, r, o) IN <<TRUE, vs, a[1], a[2]>>
      [] m.k \in {"e", "E"} -> LET a == Repeat(vs, LAMBDA v, rr, oo : WordEnd(v, m.k = "E", 1, rr, oo), cnt, r, o) IN <<TRUE, vs, a[1], a[2]>>
      [] m.k \in {"b", "B"} -> LET a == Repeat(vs, LAMBDA v, rr, oo : WordEnd(v, m.k = "B", -1, rr, oo), cnt, r, o) IN <<TRUE, vs, a[1], a[2]>>
      [] m.k \in {"{", "}"} ->
           LET RECURSIVE P(_, _)
               P(k, rr) == IF k = 0 THEN rr ELSE P(k - 1, Paragraph(vs, IF m.k = "}" THEN 1 ELSE -1, rr))
           IN <<TRUE, vs, P(cnt, r), 0>>
      (* [[ and ]] (lbuf_sectionbeg with the default section pattern ^\{): the nearest line beginning with "{" strictly before /
         after, else the first / last line; column 0.  Never fails. *)
      [] m.k \in {"[[", "]]"} ->
           LET d == IF m.k = "]]" THEN 1 ELSE -1
               RECURSIVE Sec(_)
               Sec(rr) == IF rr < 0 \/ rr >= NR(vs) THEN Max2(0, Min2(rr, NR(vs) - 1))
                          ELSE IF FL(vs, rr) # <<>> /\ FL(vs, rr)[1] = 123 THEN rr ELSE Sec(rr + d)
               RECURSIVE S(_, _)
               S(k, rr) == IF k = 0 THEN rr ELSE S(k - 1, Sec(rr + d))
           IN <<TRUE, vs, S(cnt, r), 0>>
      [] m.k = "0" -> <<TRUE, vs, r, 0>>
      [] m.k = "^" -> <<TRUE, vs, r, Indents(l)>>
      (* N$: the end of the line N - 1 below, as far down as there are lines (like j and +) *)
      [] m.k = "$" -> LET r2 == IF cnt > 1 /\ NR(vs) > 0 THEN Min2(r + cnt - 1, NR(vs) - 1) ELSE r
                      IN <<TRUE, vs, r2, Eol(FL(vs, r2))>>
      [] m.k = "|" -> <<TRUE, [vs EXCEPT !.pcol = cnt - 1], r, Col2Off(l, cnt - 1)>>
      [] m.k = " " -> LET a == Repeat(vs, LAMBDA v, rr, oo : LET x == LnNext(v, 1, rr, oo) IN <<~x[1], x[2], x[3]>>, cnt, r, o) IN <<TRUE, vs, a[1], a[2]>>
      [] m.k = "^H" -> LET a == Repeat(vs, LAMBDA v, rr, oo : LET x == LnNext(v, -1, rr, oo) IN <<~x[1], x[2], x[3]>>, cnt, r, o) IN <<TRUE, vs, a[1], a[2]>>
      [] m.k = "`" -> LET mc == IF m.ch = 96 THEN 39 ELSE m.ch IN
                      IF mc \in DOMAIN vs.ed.marks /\ vs.ed.marks[mc].row >= 0
                      THEN <<TRUE, vs, vs.ed.marks[mc].row, vs.ed.marks[mc].off>> ELSE <<FALSE, vs, r, o>>
      [] m.k = "%" -> LET a == Pair(vs, r, o) IN <<a[1], vs, a[2], a[3]>>
      [] m.k \in {"/", "?", "n", "N", "^A"} ->
           LET (* the pattern and direction in force *)
               word == IF m.k = "^A" THEN CurWord(vs, r, o) ELSE <<>>
               v1 == IF m.k \in {"/", "?"}
                     THEN [vs EXCEPT !.ed.kwd = IF m.re # <<>> THEN m.re ELSE vs.ed.kwd,
                                     !.ed.kwddir = IF m.k = "/" THEN 1 ELSE -1,
                                     !.soset = m.so # 0, !.so = m.so]       \* the generator never types "/re/0"
                     ELSE IF m.k = "^A" THEN [vs EXCEPT !.ed.kwd = <<92, 60>> \o word \o <<92, 62>>, !.ed.kwddir = 1, !.soset = FALSE]
                     ELSE vs
               d0 == v1.ed.kwddir
               dir2 == IF m.k = "N" THEN -d0 ELSE d0
               cp == Compile(v1.ed.kwd)
           IN IF (m.k = "^A" /\ word = <<>>) THEN <<FALSE, vs, r, o>>
              ELSE IF NR(v1) = 0 \/ d0 = 0 \/ ~cp.ok THEN <<FALSE, v1, r, o>>
              ELSE LET a == SearchN(v1, cp, dir2, cnt, r, o, m.k = "/") IN
                   IF ~a[1] THEN <<FALSE, v1, r, o>>
                   ELSE IF v1.soset THEN (IF a[2] + v1.so < 0 \/ a[2] + v1.so >= NR(v1) THEN <<FALSE, v1, r, o>>
                                          ELSE <<TRUE, v1, a[2] + v1.so, -1>>)
                   ELSE <<TRUE, v1, a[2], a[3]>>

SetMark(vs, mc, row, off) == [vs EXCEPT !.ed.marks[mc] = [row |-> row, solid |-> TRUE, known |-> TRUE, off |-> off]]
MarkSave(vs) == SetMark(vs, 39, vs.row, vs.off)
MarkSave2(v, old) == SetMark(v, 39, old.row, old.off)
(* a motion given as such (not as an operator's target): the bookkeeping of the main loop *)
CtxMotions == {"'", "`", "G", "H", "M", "L", "/", "?", "{", "}", "[[", "]]", "n", "N"}
DoMotion(vs, m, cnt) ==
    LET r0 == vs.row
        o0 == Noeol(FL(vs, vs.row), vs.off)
    IN IF m.k \in LineMotions
       THEN LET a == MotionLnFix(MotionLn(vs, m, cnt, r0)) IN
            IF ~a[1] THEN [vs EXCEPT !.ok = FALSE]
            ELSE LET v1 == IF m.k \in CtxMotions \/ m.k = "N%" THEN MarkSave(vs) ELSE vs
                     l  == FL(v1, a[2])
                     no == IF m.k \in {"j", "k"} THEN Col2Off(l, v1.xcol) ELSE Indents(l)
                     of == Noeol(l, no)
                 IN [v1 EXCEPT !.row = a[2], !.off = of, !.xcol = IF m.k \in {"j", "k"} THEN v1.xcol ELSE Off2Col(l, of), !.ok = TRUE]
       ELSE LET a == MotionCh(vs, m, cnt, r0, o0) IN
            IF ~a[1] THEN [a[2] EXCEPT !.ok = FALSE]
            ELSE LET v0 == a[2]
                     v1 == IF m.k \in CtxMotions THEN MarkSave2(v0, vs) ELSE v0
                     l  == FL(v1, a[3])
                     no == IF a[4] < 0 THEN Indents(l) ELSE a[4]
                     of == Noeol(l, no)
                 IN [v1 EXCEPT !.row = a[3], !.off = of, !.xcol = IF m.k = "|" THEN v1.pcol ELSE Off2Col(l, of), !.ok = TRUE]

(* ---- regions and operators (vc_motion) ----------------------------------------------- *)
USub(l, a, z) == IF z < 0 THEN SubSeq(l, a + 1, Len(l)) ELSE IF a <= z THEN SubSeq(l, a + 1, Min2(z, Len(l))) ELSE <<>>   \* uc_sub (z = -1: to the end)
RegionText(vs, r1, o1, r2, o2) ==       \* lbuf_region(): text with newlines
    IF r1 = r2 THEN USub(FL(vs, r1), o1, o2)
    ELSE USub(FL(vs, r1), o1, -1) \o JoinLines(SubSeq(Lines(vs.ed), r1 + 2, Min2(r2, NR(vs)))) \o USub(FL(vs, r2), 0, o2)
SetText(vs, text, beg, end) == [vs EXCEPT !.ed = EdEdit(vs.ed, SplitLines(text), TRUE, beg, end)]
DelRows(vs, beg, end) == [vs EXCEPT !.ed = EdEdit(vs.ed, <<>>, FALSE, beg, end)]
YankTo(vs, reg, text, ln) == [vs EXCEPT !.ed.regs = RegPut(vs.ed.regs, reg, text, ln)]
(* the motions whose target character belongs to the region; ; and , repeat an inclusive character search *)
Inclusive == {"f", "F", "t", "T", ";", ",", "e", "E", "%"}
Lower(c) == IF c >= 65 /\ c <= 90 THEN c + 32 ELSE c
Upper(c) == IF c >= 97 /\ c <= 122 THEN c - 32 ELSE c
CaseMap(t, how) == [i \in 1..Len(t) |-> IF t[i] > 127 THEN t[i]
                                        ELSE IF how = "gu" THEN Lower(t[i]) ELSE IF how = "gU" THEN Upper(t[i])
                                        ELSE IF t[i] >= 97 /\ t[i] <= 122 THEN Upper(t[i]) ELSE Lower(t[i])]

(* the text typed in insert mode: led_input().  keys: code points and control keys; returns the inserted text *)
LastWord(s) ==       \* led_lastword(): the length to keep
    IF s = <<>> THEN 0
    ELSE LET RECURSIVE SkipSp(_), SkipKind(_, _)
             SkipSp(r) == IF r > 0 /\ IsSpace(s[r + 1]) THEN SkipSp(r - 1) ELSE r          \* r: 0-based index of a character
             r1 == SkipSp(Len(s) - 1)
             kind == IF r1 > 0 THEN Kind(s[r1 + 1]) ELSE 0
             SkipKind(r, k) == IF r > 0 /\ Kind(s[r]) = k THEN SkipKind(r - 1, k) ELSE r
         IN SkipKind(r1, kind)
LeadBlanks(s) == LET RECURSIVE F(_)
                     F(k) == IF k <= Len(s) /\ s[k] \in {32, 9} THEN F(k + 1) ELSE k - 1 IN F(1)
(* one line of input: <<typed text, ai, rest of keys, ended by newline?>> *)
RECURSIVE LedLine(_, _, _, _)
LedLine(keys, sb, ai, prefEmpty) ==
    IF keys = <<>> THEN <<sb, ai, <<>>, FALSE>>
    ELSE LET c == Head(keys)  rest == Tail(keys) IN
         IF c = 27 THEN <<sb, ai, rest, FALSE>>
         ELSE IF c = 10 THEN <<sb, ai, rest, TRUE>>
         ELSE IF c = 8 \/ c = 127 THEN LedLine(rest, IF sb = <<>> THEN sb ELSE SubSeq(sb, 1, Len(sb) - 1), ai, prefEmpty)
         ELSE IF c = 21 THEN LedLine(rest, <<>>, ai, prefEmpty)
         ELSE IF c = 23 THEN LedLine(rest, IF sb = <<>> THEN sb ELSE SubSeq(sb, 1, LastWord(sb)), ai, prefEmpty)
         ELSE IF c = 20 THEN LedLine(rest, sb, IF Len(ai) < 127 THEN Append(ai, 9) ELSE ai, prefEmpty)
         ELSE IF c = 4 THEN LedLine(rest, IF ai = <<>> /\ prefEmpty /\ sb # <<>> /\ sb[1] \in {32, 9} THEN Tail(sb) ELSE sb,
                                    IF ai # <<>> THEN SubSeq(ai, 1, Len(ai) - 1) ELSE ai, prefEmpty)
         (* ^V takes the next key literally; a literal NUL is the empty string: nothing is inserted *)
         ELSE IF c = 22 THEN (IF rest = <<>> THEN <<sb, ai, <<>>, FALSE>>
                              ELSE LedLine(Tail(rest), IF Head(rest) = 0 THEN sb ELSE Append(sb, Head(rest)), ai, prefEmpty))
         ELSE LedLine(rest, Append(sb, c), ai, prefEmpty)
RECURSIVE LedLoop(_, _, _, _, _, _)
LedLoop(keys, pref, post, ai, out, aion) ==
    LET ln == LedLine(keys, <<>>, ai, pref = <<>>)
        t  == ln[1]
        ai1 == ln[2]
        sp == LeadBlanks(t)
        nonblank == sp < Len(t)
        useai == nonblank \/ pref # <<>> \/ (~ln[4] /\ post # <<>> /\ post[1] # NL)
        out1 == out \o (IF useai THEN ai1 ELSE <<>>) \o pref \o t \o (IF ln[4] THEN <<NL>> ELSE <<>>)
        ai2 == IF pref = <<>> THEN ai1 \o SubSeq(t, 1, Min2(sp, 127 - Len(ai1))) ELSE ai1
        ai3 == IF aion THEN ai2 ELSE <<>>
    IN IF ~ln[4] THEN <<out1 \o post, post>>
       ELSE LedLoop(ln[3], <<>>, IF aion THEN SubSeq(post, LeadBlanks(post) + 1, Len(post)) ELSE post, ai3, out1, aion)
LedInput(keys, pref0, post, aion) ==
    LET n == LeadBlanks(pref0) IN
    (* the first 127 leading blanks are the indent; any further ones stay in front of the text *)
    LedLoop(keys, SubSeq(pref0, Min2(n, 127) + 1, Len(pref0)), post, SubSeq(pref0, 1, Min2(n, 127)), <<>>, aion)
(* vi_input(): <<text, rows, off>>: number of lines of the text and the offset of the last typed character *)
CountNL(t) == Cardinality({i \in 1..Len(t) : t[i] = NL})
InputPos(text, post) ==
    LET tl == Len(text)  pl == Len(post)
        nls == {i \in 1..(tl - pl) : text[i] = NL}
        lastnl == IF nls = {} THEN 0 ELSE CHOOSE i \in nls : \A j \in nls : j <= i
        off == (tl - lastnl) - pl - 1
    IN <<CountNL(text), IF tl < pl THEN 0 ELSE IF off < 0 THEN 0 ELSE off>>
ViIndents(vs, l) == IF vs.ai THEN SubSeq(l, 1, LeadBlanks(l)) ELSE <<>>

Operate(vs0, op, m, cnt, reg, keys) ==
    LET r1a == vs0.row
        o1a == Noeol(FL(vs0, vs0.row), vs0.off)
        tgt == IF m.k \in LineMotions
               THEN LET a == MotionLnFix(MotionLn(vs0, m, cnt, r1a)) IN <<a[1], vs0, a[2], -1>>
               ELSE MotionCh(vs0, m, cnt, r1a, o1a)
    IN IF ~tgt[1] THEN [tgt[2] EXCEPT !.ok = FALSE]
       ELSE
       LET vs == tgt[2]
           ln == tgt[4] < 0
           r2a == tgt[3]
           o2a == IF ln THEN Eol(FL(vs, r2a)) ELSE tgt[4]
           o1b == IF ln THEN 0 ELSE o1a
           swp == r1a > r2a \/ (r1a = r2a /\ o1b > o2a)
           r1 == IF r1a > r2a THEN r2a ELSE r1a
           r2 == IF r1a > r2a THEN r1a ELSE r2a
           o1c == IF swp THEN o2a ELSE o1b
           o2d == IF swp THEN o1b ELSE o2a
           o1 == Noeol(FL(vs, r1), o1c)
           \* a region never takes the newline of its last line (a stale mark column, ^ on a blank line)
           o2c == IF ~ln /\ o2d > Eol(FL(vs, r2)) THEN Eol(FL(vs, r2)) ELSE o2d
           o2 == IF ~ln /\ m.k \in Inclusive /\ o2c < Eol(FL(vs, r2)) THEN Noeol(FL(vs, r2), o2c) + 1 ELSE o2c
           text == RegionText(vs, r1, IF ln THEN 0 ELSE o1, r2, IF ln THEN -1 ELSE o2)
       IN
       CASE op = "y" -> [YankTo(vs, reg, text, ln) EXCEPT !.row = r1, !.off = IF ln THEN vs.off ELSE o1, !.ok = TRUE]
         [] op = "d" ->
              LET v1 == YankTo(vs, reg, text, ln)
                  v2 == IF ln THEN DelRows(v1, r1, r2 + 1)
                        ELSE SetText(v1, USub(FL(v1, r1), 0, o1) \o USub(FL(v1, r2), o2, -1), r1, r2 + 1)
              IN [v2 EXCEPT !.row = r1, !.off = IF ln THEN Indents(FL(v2, r1)) ELSE o1, !.ok = TRUE]
         [] op = "c" ->
              LET v1 == YankTo(vs, reg, text, ln)
                  pref == IF ln THEN ViIndents(v1, FL(v1, r1)) ELSE USub(FL(v1, r1), 0, o1)
                  post == IF ln \/ ~HasLn(v1, r2) THEN <<NL>> ELSE USub(FL(v1, r2), o2, -1)      \* in an empty buffer the text ends with a newline
                  li == LedInput(keys, pref, post, v1.ai)
                  rep == li[1]
                  ip == InputPos(rep, li[2])
                  v2 == SetText(v1, rep, r1, r2 + 1)
              IN [v2 EXCEPT !.row = r1 + ip[1] - 1, !.off = ip[2], !.ok = TRUE,
                             !.top = Max2(Min2(vs.top, r1), r1 + ip[1] - 1 - vs.rows + 1)]
         [] op \in {"g~", "gu", "gU"} ->
              LET mapped == CaseMap(text, op)
                  v2 == IF ln THEN SetText(vs, mapped, r1, r2 + 1)
                        ELSE SetText(vs, USub(FL(vs, r1), 0, o1) \o mapped \o USub(FL(vs, r2), o2, -1), r1, r2 + 1)
              IN [v2 EXCEPT !.row = r2, !.off = IF ln THEN Indents(FL(v2, r2)) ELSE o2, !.ok = TRUE]
         (* ! (vi_pipe): the whole lines r1..r2 go through the filter typed at the prompt and are replaced by its output in one
            splice; after { or } a blank last line stays out.  The scripts' filter is "tr a-z A-Z".  The cursor is left alone. *)
         [] op = "!" ->
              LET r2p == IF m.k \in {"{", "}"} /\ HasLn(vs, r2) /\ FL(vs, r2)[1] = NL /\ r1 < r2 THEN r2 - 1 ELSE r2
                  v2 == SetText(vs, CaseMap(RegionText(vs, r1, 0, r2p, -1), "gU"), r1, r2p + 1)
              IN [v2 EXCEPT !.ok = TRUE]
         [] op \in {"<", ">"} ->
              LET RECURSIVE Sh(_, _)
                  Sh(v, i) == IF i > r2 THEN v
                              ELSE IF ~HasLn(v, i) THEN Sh(v, i + 1)
                              ELSE LET l == FL(v, i)
                                       nl == IF op = ">" THEN (IF l[1] # NL THEN <<9>> \o l ELSE l)
                                             ELSE (IF l[1] \in {32, 9} THEN Tail(l) ELSE l)
                                   IN Sh(SetText(v, nl, i, i + 1), i + 1)
                  v2 == Sh(vs, r1)
              IN [v2 EXCEPT !.row = r1, !.off = Indents(FL(v2, r1)), !.ok = TRUE]

(* ---- the other editing commands ------------------------------------------------------------ *)
Insert(vs, k, keys) ==      \* i a I A o O
    LET l0 == FL(vs, vs.row)
        xo0 == IF k = "I" THEN Indents(l0) ELSE IF k = "A" THEN Eol(l0) ELSE vs.off
        xo == Noeol(l0, xo0)
        row0 == IF k = "o" THEN vs.row + 1 ELSE vs.row          \* vi_nextline()
        off0 == IF l0 # <<>> /\ l0[1] = NL THEN 0 ELSE IF k \in {"a", "A"} THEN xo + 1 ELSE IF k \in {"i", "I"} THEN xo ELSE 0
        open == k \in {"o", "O"}
        pref == IF l0 # <<>> /\ ~open THEN USub(l0, 0, off0) ELSE ViIndents(vs, l0)
        post == IF l0 # <<>> /\ ~open THEN USub(l0, off0, -1) ELSE <<NL>>
        li == LedInput(keys, pref, post, vs.ai)
        rep == li[1]
        ip == InputPos(rep, li[2])
        rowN == row0 + ip[1] - 1                                  \* vi_nextline() for every further line
        v0 == IF open /\ NR(vs) = 0 THEN SetText(vs, <<NL>>, 0, 0) ELSE vs
        beg == rowN - ip[1] + 1
        v1 == SetText(v0, rep, beg, beg + (IF open THEN 0 ELSE 1))
    IN [v1 EXCEPT !.row = rowN, !.off = ip[2], !.ok = TRUE, !.top = Max2(vs.top, rowN - vs.rows + 1)]     \* vi_nextline()

Put(vs, k, cnt0, reg) ==
    LET cnt == Max2(1, cnt0)
        g == RegGet(vs.ed.regs, reg)
        RECURSIVE Rep(_, _)
        Rep(t, n) == IF n = 0 THEN <<>> ELSE t \o Rep(t, n - 1)
    IN IF ~g.has \/ g.s = <<>> THEN [vs EXCEPT !.ok = FALSE]
       ELSE IF g.ln
       THEN LET v0 == IF NR(vs) = 0 THEN SetText(vs, <<NL>>, 0, 0) ELSE vs
                row == IF k = "p" THEN v0.row + 1 ELSE v0.row
                v1 == SetText(v0, Rep(g.s, cnt), row, row)
            IN [v1 EXCEPT !.row = row, !.off = Indents(FL(v1, row)), !.ok = TRUE]
       ELSE LET l == IF vs.row < NR(vs) THEN FL(vs, vs.row) ELSE <<NL>>
                off == Noeol(l, vs.off) + (IF l[1] # NL /\ k = "p" THEN 1 ELSE 0)
                v1 == SetText(vs, USub(l, 0, off) \o Rep(g.s, cnt) \o USub(l, off, -1), vs.row, vs.row + 1)
            IN [v1 EXCEPT !.off = off + Len(g.s) * cnt - 1, !.ok = TRUE]

Join(vs, cnt0) ==
    LET cnt == IF cnt0 <= 1 THEN 2 ELSE cnt0
        beg == vs.row  end == vs.row + cnt
    IN IF ~HasLn(vs, beg) \/ ~HasLn(vs, end - 1) THEN [vs EXCEPT !.ok = FALSE]
       ELSE LET RECURSIVE J(_, _, _)
                J(i, acc, off) ==
                    IF i >= end THEN <<acc, off>>
                    ELSE LET l0 == Lines(vs.ed)[i + 1]
                             l == IF i > beg THEN SubSeq(l0, LeadBlanks(l0) + 1, Len(l0)) ELSE l0
                             sp == IF i = beg \/ acc = <<>> THEN 0
                                   ELSE IF acc[Len(acc)] = 32 \/ (l # <<>> /\ l[1] = 41) THEN 0
                                   ELSE IF acc[Len(acc)] = 46 THEN 2 ELSE 1
                         IN J(i + 1, acc \o [x \in 1..sp |-> 32] \o l, Len(acc))
                j == J(beg, <<>>, 0)
                v1 == SetText(vs, j[1] \o <<NL>>, beg, end)
            IN [v1 EXCEPT !.off = j[2], !.ok = TRUE]

Replace(vs, cnt0, ch) ==
    LET cnt == Max2(1, cnt0)
        l == FL(vs, vs.row)
        off == Noeol(l, vs.off)
        avail == Len(l) - 1 - off          \* characters before the newline from off on
    IN IF l = <<>> \/ avail < cnt THEN [vs EXCEPT !.ok = FALSE]
       ELSE LET v1 == SetText(vs, USub(l, 0, off) \o [x \in 1..cnt |-> ch] \o USub(l, off + cnt, -1), vs.row, vs.row + 1) IN
            IF ch = NL THEN [v1 EXCEPT !.row = vs.row + cnt, !.off = 0, !.ok = TRUE]
            ELSE [v1 EXCEPT !.off = off + cnt - 1, !.ok = TRUE]

(* ---- one command of the main loop: c = [reg, c1, k, ...] ------------------------------------------ *)
Unknown(marks) == [m \in DOMAIN marks |-> [marks[m] EXCEPT !.known = FALSE, !.solid = FALSE]]
Cnt2(a, b) == IF a = 0 /\ b = 0 THEN 0 ELSE (IF a = 0 THEN 1 ELSE a) * (IF b = 0 THEN 1 ELSE b)
Mot(k) == [k |-> k, ch |-> 0, re |-> <<>>, so |-> 0]
WFix(vs) ==      \* vi_wfix() and the column bookkeeping after a command that reported a change
    LET n == NR(vs)
        row == IF vs.row < 0 \/ vs.row >= n THEN (IF n > 0 THEN n - 1 ELSE 0) ELSE vs.row
        l == FL(vs, row)
        off == Noeol(l, vs.off)
        h == vs.rows \div 2
        t1 == IF vs.top > row THEN (IF vs.top - h > row THEN Max2(0, row - h) ELSE row) ELSE vs.top
        t2 == IF t1 + vs.rows <= row THEN (IF t1 + vs.rows + h <= row THEN row - h ELSE row - vs.rows + 1) ELSE t1
    IN [vs EXCEPT !.row = row, !.off = off, !.top = t2]
(* ---- scrolling (^E ^Y ^D ^U ^F ^B, z<CR> z. z-): the window moves, the cursor follows it --------------------------- *)
ScrollCol(key) == key \in {"^F", "^B", "^D", "^U"}        \* these put the cursor on the first non-blank (and report a column change)
Scroll(vs, key, c1) ==
    LET n == NR(vs)  rows == vs.rows  top == vs.top  row == vs.row
        cnt == Max2(1, c1)
        Place(r, t) == LET l == FL(vs, r) IN
                       [vs EXCEPT !.row = r, !.top = t, !.off = IF ScrollCol(key) THEN Indents(l) ELSE Col2Off(l, vs.xcol)]
        Fwd(k) == IF top >= n - 1 THEN [vs EXCEPT !.ok = FALSE] ELSE LET t == Min2(n - 1, top + k) IN Place(Max2(row, t), t)
        Bwd(k) == IF top = 0 THEN [vs EXCEPT !.ok = FALSE] ELSE LET t == Max2(0, top - k) IN Place(Min2(row, t + rows - 1), t)
        sc == IF c1 > 0 THEN c1 ELSE vs.scroll
        half == IF sc > 0 THEN sc ELSE rows \div 2
        zn == IF c1 > 0 THEN c1 ELSE row
    IN CASE key = "^F" -> Fwd(cnt * (rows - 1))
         [] key = "^B" -> Bwd(cnt * (rows - 1))
         [] key = "^E" -> Fwd(cnt)
         [] key = "^Y" -> Bwd(cnt)
         [] key = "^U" -> IF row = 0 THEN [vs EXCEPT !.ok = FALSE]
                          ELSE [Place(Max2(0, row - half), IF top > 0 THEN Max2(0, top - half) ELSE top) EXCEPT !.scroll = sc]
         [] key = "^D" -> IF row = n - 1 \/ n = 0 THEN [vs EXCEPT !.ok = FALSE]
                          ELSE [Place(Min2(Max2(0, n - 1), row + half), IF top < n - rows THEN Min2(n - rows, top + half) ELSE top) EXCEPT !.scroll = sc]
         [] key = "zn" -> [vs EXCEPT !.top = zn]
         [] key = "z." -> [vs EXCEPT !.top = Max2(0, zn - rows \div 2)]
         [] key = "z-" -> [vs EXCEPT !.top = Max2(0, zn - rows + 1)]

ViCmd(vs0, c) ==
    LET vs == [vs0 EXCEPT !.ok = TRUE, !.ed.out = <<>>,
                          !.ed.lb.aux = IF c.k = "mot" THEN vs0.ed.lb.aux ELSE vs0.off]     \* lbuf_mark(xb, '^', xrow, xoff)
        (* the mark ^ is set by every non-motion command; not modelled (internal) *)
        v1 == CASE c.k = "mot" -> DoMotion(vs, c.m, c.c1)
                [] c.k = "op"  -> Operate(vs, c.op, c.m, Cnt2(c.c1, c.c2), c.reg, c.keys)
                [] c.k = "x"   -> Operate(vs, "d", Mot(" "), c.c1, c.reg, <<>>)
                [] c.k = "X"   -> Operate(vs, "d", Mot("^H"), c.c1, c.reg, <<>>)
                [] c.k = "D"   -> Operate(vs, "d", Mot("$"), c.c1, c.reg, <<>>)
                [] c.k = "C"   -> Operate(vs, "c", Mot("$"), c.c1, c.reg, c.keys)
                [] c.k = "s"   -> Operate(vs, "c", Mot(" "), c.c1, c.reg, c.keys)
                [] c.k = "S"   -> Operate(vs, "c", Mot("dbl"), c.c1, c.reg, c.keys)
                [] c.k = "Y"   -> Operate(vs, "y", Mot("dbl"), c.c1, c.reg, <<>>)
                [] c.k = "~"   -> Operate(vs, "g~", Mot(" "), c.c1, c.reg, <<>>)
                [] c.k = "ins" -> Insert(vs, c.ik, c.keys)
                [] c.k \in {"p", "P"} -> Put(vs, c.k, c.c1, c.reg)
                [] c.k = "J"   -> Join(vs, c.c1)
                [] c.k = "r"   -> Replace(vs, c.c1, c.ch)
                [] c.k = "u"   -> LET lb == Lb!Undo(vs.ed.lb) IN
                                  IF lb.ret # 0 THEN [vs EXCEPT !.ok = FALSE]
                                  ELSE LET e == lb.hist[lb.hu + 1] IN      \* the cursor returns to where the undone command began
                                       [vs EXCEPT !.ed.lb = lb, !.row = e.pos, !.off = e.aux, !.ed.marks = Unknown(vs.ed.marks)]
                [] c.k = "^R"  -> LET lb == Lb!Redo(vs.ed.lb) IN
                                  IF lb.ret # 0 THEN [vs EXCEPT !.ok = FALSE]
                                  ELSE LET e == lb.hist[lb.hu] IN
                                       [vs EXCEPT !.ed.lb = lb, !.row = e.pos, !.off = e.aux, !.ed.marks = Unknown(vs.ed.marks)]
                [] c.k = "m"   -> IF c.ch \in DOMAIN vs.ed.marks THEN SetMark(vs, c.ch, vs.row, vs.off) ELSE vs
                [] c.k = "scr" -> Scroll(vs, c.key, c.c1)
        v2 == WFix(v1)
        l  == FL(v2, v2.row)
        (* the sticky column follows the cursor after every command that reports a change of the screen; motions set
           it themselves; a yank, a mark and a failed command report nothing *)
        quiet == c.k = "mot" \/ c.k \in {"m", "Y"} \/ (c.k = "op" /\ c.op = "y") \/ ~v1.ok \/ (c.k = "scr" /\ ~ScrollCol(c.key))
        v3 == IF quiet THEN v2 ELSE [v2 EXCEPT !.xcol = Off2Col(l, v2.off)]
    IN [v3 EXCEPT !.ed.lb = Lb!Bump(v3.ed.lb)]

(* ---- what is typed for a command -------------------------------------------------------------------- *)
MotKeys(m) ==
    CASE m.k \in {"f", "F", "t", "T", "'", "`"} -> <<(CASE m.k = "f" -> 102 [] m.k = "F" -> 70 [] m.k = "t" -> 116 [] m.k = "T" -> 84
                                                          [] m.k = "'" -> 39 [] m.k = "`" -> 96), m.ch>>
      [] m.k = "^H" -> <<8>> [] m.k = "^A" -> <<1>> [] m.k = "dbl" -> <<>> [] m.k = "N%" -> <<37>>
      [] m.k \in {"/", "?"} -> (IF m.k = "/" THEN <<47>> ELSE <<63>>) \o Delimited(m.re, IF m.k = "/" THEN 47 ELSE 63)
                               \o (IF m.so # 0 THEN (IF m.k = "/" THEN <<47>> ELSE <<63>>) \o (IF m.so > 0 THEN <<43>> \o NumStr(m.so) ELSE <<45>> \o NumStr(-m.so)) ELSE <<>>)
                               \o <<10>>
      [] m.k = "+" -> <<43>> [] m.k = "-" -> <<45>> [] m.k = "_" -> <<95>> [] m.k = "j" -> <<106>> [] m.k = "k" -> <<107>>
      [] m.k = "G" -> <<71>> [] m.k = "H" -> <<72>> [] m.k = "L" -> <<76>> [] m.k = "M" -> <<77>>
      [] m.k = ";" -> <<59>> [] m.k = "," -> <<44>> [] m.k = "h" -> <<104>> [] m.k = "l" -> <<108>>
      [] m.k = "w" -> <<119>> [] m.k = "W" -> <<87>> [] m.k = "e" -> <<101>> [] m.k = "E" -> <<69>> [] m.k = "b" -> <<98>> [] m.k = "B" -> <<66>>
      [] m.k = "[[" -> <<91, 91>> [] m.k = "]]" -> <<93, 93>>
      [] m.k = "{" -> <<123>> [] m.k = "}" -> <<125>> [] m.k = "0" -> <<48>> [] m.k = "^" -> <<94>> [] m.k = "$" -> <<36>> [] m.k = "|" -> <<124>>
      [] m.k = " " -> <<32>> [] m.k = "%" -> <<37>> [] m.k = "n" -> <<110>> [] m.k = "N" -> <<78>>
CntKeys(n) == IF n = 0 THEN <<>> ELSE NumStr(n)
RegKeys(r) == IF r = 0 THEN <<>> ELSE <<34, r>>
OpKeys(op) == CASE op = "d" -> <<100>> [] op = "c" -> <<99>> [] op = "y" -> <<121>> [] op = "<" -> <<60>> [] op = ">" -> <<62>>
                [] op = "g~" -> <<103, 126>> [] op = "gu" -> <<103, 117>> [] op = "gU" -> <<103, 85>> [] op = "!" -> <<33>>
FilterKeys == <<116, 114, 32, 97, 45, 122, 32, 65, 45, 90, 10>>        \* "tr a-z A-Z" and Enter, typed at the prompt of !
OpLast(op) == OpKeys(op)[Len(OpKeys(op))]
Keys(c) ==
    CASE c.k = "mot" -> CntKeys(c.c1) \o MotKeys(c.m)
      [] c.k = "op"  -> RegKeys(c.reg) \o CntKeys(c.c1) \o OpKeys(c.op) \o CntKeys(c.c2)
                        \o (IF c.m.k = "dbl" THEN <<OpLast(c.op)>> ELSE MotKeys(c.m)) \o (IF c.op = "c" THEN c.keys \o <<27>> ELSE IF c.op = "!" THEN FilterKeys ELSE <<>>)
      [] c.k \in {"x", "X", "D", "Y", "~"} -> RegKeys(c.reg) \o CntKeys(c.c1) \o
                        <<(CASE c.k = "x" -> 120 [] c.k = "X" -> 88 [] c.k = "D" -> 68 [] c.k = "Y" -> 89 [] c.k = "~" -> 126)>>
      [] c.k \in {"C", "s", "S"} -> RegKeys(c.reg) \o CntKeys(c.c1) \o <<(CASE c.k = "C" -> 67 [] c.k = "s" -> 115 [] c.k = "S" -> 83)>> \o c.keys \o <<27>>
      [] c.k = "ins" -> <<(CASE c.ik = "i" -> 105 [] c.ik = "a" -> 97 [] c.ik = "I" -> 73 [] c.ik = "A" -> 65 [] c.ik = "o" -> 111 [] c.ik = "O" -> 79)>>
                        \o c.keys \o <<27>>
      [] c.k \in {"p", "P"} -> RegKeys(c.reg) \o CntKeys(c.c1) \o <<IF c.k = "p" THEN 112 ELSE 80>>
      [] c.k = "J" -> CntKeys(c.c1) \o <<74>>
      [] c.k = "r" -> CntKeys(c.c1) \o <<114, c.ch>>
      [] c.k = "scr" -> CntKeys(c.c1) \o (CASE c.key = "^F" -> <<6>> [] c.key = "^B" -> <<2>> [] c.key = "^E" -> <<5>> [] c.key = "^Y" -> <<25>>
                                            [] c.key = "^U" -> <<21>> [] c.key = "^D" -> <<4>> [] c.key = "zn" -> <<122, 10>>
                                            [] c.key = "z." -> <<122, 46>> [] c.key = "z-" -> <<122, 45>>)
      [] c.k = "u" -> <<117>> [] c.k = "^R" -> <<18>> [] c.k = "m" -> <<109, c.ch>>
=============================================================================
