------------------------------- MODULE Gen_Vi -------------------------------
(* Behaviours of visual mode for C07 (motions), C13 (searches), C08 (operators,  *)
(* inserts, puts, registers): seeded command sequences built from the model      *)
(* state, each with the keys to type and the state Vi!ViCmd expects.             *)
(* harness/vidrive.py types the keys into `vi -v' and compares the state         *)
(* recorded at every command boundary.  Environment: SEED0 NSCRIPTS NSTEPS       *)
(* PROFILE OUT.                                                                  *)
EXTENDS Vi, Json, IOUtils
VARIABLE dummy
Env(k, d) == IF k \in DOMAIN IOEnv THEN IOEnv[k] ELSE d
EnvN(k, d) == IF k \in DOMAIN IOEnv THEN atoi(IOEnv[k]) ELSE d
Rnd(sd, t, j) == LET a == (sd * 131 + t * 31 + j * 7 + 17) % 60000
                     b == (t * 197 + j * 61 + sd + 3) % 60000
                 IN ((((a * 31337 + b * 2467 + 12345) % 65521) * 251 + a + 3 * b) % 32749)
Pick(sd, t, j, n) == Rnd(sd, t, j) % n
Elem(sd, t, j, s) == s[Pick(sd, t, j, Len(s)) + 1]
Profile == Env("PROFILE", "mot")

(* f o o sp b a r ( b a z ) ...: ASCII words, punctuation, blanks, tabs, brackets, multi-byte, wide, combining *)
TextPool == << <<102,111,111,32,98,97,114,40,98,97,122,41,32,113>>, <<97,46,98,44,32,99>>, <<9,105,110,100,32,120>>, <<>>,
               <<233,28450,32,120,769,121>>, <<32,32,116,119,111,32,32,115,112>>, <<40,97,91,98,93,123,99,125,41>>, <<120>>,
               <<119,111,114,100,32,119,111,114,100,46,119,111,114,100>>, <<97,97,97,32,98,98,98,32,32>>, <<48,95,49,32,97,45,98>>,
               <<>>, <<102,111,111,98,97,114,32,98,97,114>>, <<65,98,32,97,66,32,97,98>>, <<105,102,32,40,120,41,32,123>>, <<125>>,
               (* brackets whose partner is on another, shorter or longer, line *)
               <<102,40,97,44,10,32,32,32,32,32,32,98,41,32,120>>, <<123,10,9,9,120,32,125,32,121>>, <<91,10,10,32,32,32,32,93>>,
               (* a backslash and a slash after the same letter *)
               <<97,47,98,32,97,92,98>> >>
PatPool == << <<98,97,114>>, <<97>>, <<94,97>>, <<97,36>>, <<92,60,98,97,114>>, <<98,92,62>>, <<97,42>>, <<120,42>>, <<46>>,
              <<40,97,124,98,41,43>>, <<91,94,97,93>>, <<119,111,114,100>>, <<>>, <<233>>, <<32,32>>, <<111,111>>,
              <<97,92,92>>, <<97,47>> >>          \* a pattern ending in an escaped backslash; one holding the delimiter of /
CharPool == <<97, 98, 32, 40, 41, 46, 120, 233, 111, 119, 123, 125, 9>>
KeyPool == << <<120>>, <<233,32,97>>, <<97,98,8,99>>, <<97,32,98,98,23,99>>, <<120,121,21,122>>, <<97,10,98>>, <<10>>, <<>>,
              <<20,120>>, <<97,10,4,98>>, <<22,9,120>>, <<97,22,0,98>>, <<119,49,32,119,50>>, <<32,32,97,10,98,10,99>>, <<28450>>, <<40,41>>, <<97,10,32,98,10,99>>,
              <<32,120,4,121>>, <<9,88,4>>, <<32,4,4,122>> >>       \* a typed leading blank, then ^D (a no-op unless the line so far is empty)
RegPool == <<0, 0, 0, 97, 98, 65, 34>>
Counts == <<0, 0, 0, 0, 2, 3, 9, 1>>

MotionKinds == <<"h", "l", "j", "k", "0", "^", "$", "|", "w", "b", "e", "W", "B", "E", "f", "F", "t", "T", ";", ",", "G", "+", "-", "_",
                 "%", "{", "}", "H", "M", "L", " ", "^H", "'", "`", "N%", "w", "e", "b", "j", "k", "l", "h", "f", "t", "[[", "]]">>
SearchKinds == <<"/", "?", "n", "N", "^A", "n", "/", "/", "?", "N">>
GenMotion(vs, sd, t, j, searches) ==
    LET k == IF searches THEN Elem(sd, t, j, SearchKinds) ELSE Elem(sd, t, j, MotionKinds)
        l == FL(vs, vs.row)
        (* a character of the current line (so that f/t succeed often) or one from the pool *)
        ch == IF Len(l) > 1 /\ Pick(sd, t, j + 1, 3) > 0 THEN l[Pick(sd, t, j + 2, Len(l) - 1) + 1] ELSE Elem(sd, t, j + 2, CharPool)
        mk == IF Pick(sd, t, j + 3, 2) = 0 THEN 97 ELSE IF Pick(sd, t, j + 4, 2) = 0 THEN 98 ELSE (IF k = "'" THEN 39 ELSE 96)
        usable == mk \in DOMAIN vs.ed.marks /\ vs.ed.marks[IF mk = 96 THEN 39 ELSE mk].known
    IN IF k \in {"H", "M", "L"} /\ NR(vs) >= vs.rows /\ Profile # "scroll" THEN Mot("k")        \* these depend on the scrolling policy once the text does not fit
       ELSE IF k \in {"'", "`"} THEN (IF usable THEN [k |-> k, ch |-> mk, re |-> <<>>, so |-> 0] ELSE Mot("w"))
       ELSE IF k \in {"f", "F", "t", "T"} THEN [k |-> k, ch |-> IF ch = NL THEN 120 ELSE ch, re |-> <<>>, so |-> 0]
       ELSE IF k \in {"/", "?"} THEN [k |-> k, ch |-> 0, re |-> Elem(sd, t, j + 5, PatPool),
                                      so |-> IF Pick(sd, t, j + 6, 8) = 0 THEN 1 ELSE IF Pick(sd, t, j + 6, 8) = 1 THEN -1 ELSE 0]
       ELSE Mot(k)

ScrollKeys == <<"^E", "^Y", "^D", "^U", "^F", "^B", "zn", "z.", "z-", "^E", "^Y", "^D", "^U">>
GenCmd(vs, sd, t) ==
    LET q == Pick(sd, t, 0, 100)
        c1 == Elem(sd, t, 1, Counts)
        reg == Elem(sd, t, 2, RegPool)
        keys == Elem(sd, t, 3, KeyPool)
        pmot == IF Profile = "mot" THEN 70 ELSE IF Profile = "search" THEN 70 ELSE IF Profile = "scroll" THEN 55 ELSE 22
        searches == Profile = "search" /\ Pick(sd, t, 30, 10) < 8
    IN IF Profile = "scroll" /\ NR(vs) > 0 /\ Pick(sd, t, 40, 100) < 45
       THEN [k |-> "scr", key |-> Elem(sd, t, 41, ScrollKeys), c1 |-> Elem(sd, t, 42, <<0, 0, 0, 1, 2, 3, 7>>), reg |-> 0]
       ELSE IF NR(vs) = 0 /\ q < 80 THEN [k |-> "ins", ik |-> Elem(sd, t, 4, <<"i", "a", "o", "O", "A", "I">>), keys |-> Elem(sd, t, 5, KeyPool), reg |-> 0, c1 |-> 0]
       ELSE IF q < pmot THEN
            LET m == GenMotion(vs, sd, t, 10, searches) IN
            [k |-> "mot", m |-> m, c1 |-> IF m.k = "N%" THEN 1 + Pick(sd, t, 6, 110)
                                          ELSE IF m.k \in {"0", "%"} THEN 0          \* "0" would extend the count; "N%" is another motion
                                          ELSE IF m.k \in {"/", "?"} /\ c1 > 3 THEN 0 ELSE c1, reg |-> 0]
       ELSE LET e == Pick(sd, t, 7, 100) IN
            IF e < 36 THEN
                LET op0 == Elem(sd, t, 8, <<"d", "d", "c", "y", "y", "<", ">", "g~", "gu", "gU", "d", "c", "!">>)
                    op == IF op0 = "!" /\ NR(vs) = 0 THEN "d" ELSE op0
                    dbl == Pick(sd, t, 9, 5) = 0
                    m0 == GenMotion(vs, sd, t, 10, Profile = "search" /\ Pick(sd, t, 31, 3) = 0)
                    m == IF dbl THEN Mot("dbl") ELSE IF m0.k = "N%" THEN Mot("w") ELSE m0
                    nocount == m.k \in {"0", "%"}
                IN [k |-> "op", op |-> op, m |-> m, c1 |-> IF Pick(sd, t, 20, 3) = 0 /\ ~nocount THEN c1 ELSE 0,
                    c2 |-> IF Pick(sd, t, 21, 4) = 0 /\ ~nocount THEN Elem(sd, t, 22, Counts) ELSE 0, reg |-> reg,
                    keys |-> IF op = "c" THEN keys ELSE <<>>]
            ELSE IF e < 52 THEN [k |-> Elem(sd, t, 8, <<"x", "X", "D", "Y", "~", "x", "x">>), c1 |-> c1, reg |-> reg]
            ELSE IF e < 58 THEN [k |-> Elem(sd, t, 8, <<"C", "s", "S">>), c1 |-> c1, reg |-> reg, keys |-> keys]
            ELSE IF e < 72 THEN [k |-> "ins", ik |-> Elem(sd, t, 8, <<"i", "a", "I", "A", "o", "O">>), keys |-> keys, reg |-> 0, c1 |-> 0]
            ELSE IF e < 82 THEN [k |-> Elem(sd, t, 8, <<"p", "P">>), c1 |-> IF c1 > 3 THEN 2 ELSE c1, reg |-> IF reg = 65 THEN 97 ELSE reg]
            ELSE IF e < 86 THEN [k |-> "J", c1 |-> IF c1 > 3 THEN 3 ELSE c1, reg |-> 0]
            ELSE IF e < 90 THEN [k |-> "r", c1 |-> IF c1 > 3 THEN 2 ELSE c1, ch |-> Elem(sd, t, 8, <<120, 233, 10, 32, 28450>>), reg |-> 0]
            ELSE IF e < 95 THEN [k |-> "u", c1 |-> 0, reg |-> 0]
            ELSE IF e < 97 THEN [k |-> "^R", c1 |-> 0, reg |-> 0]
            ELSE [k |-> "m", ch |-> Elem(sd, t, 8, <<97, 98>>), c1 |-> 0, reg |-> 0]

RegList(ed) == SetToSeq({<<r, IF ed.regs[r].ln THEN 1 ELSE 0, ed.regs[r].s>> : r \in {x \in DOMAIN ed.regs : ed.regs[x].has}})
Proj(vs) == [lines |-> Lines(vs.ed), row |-> vs.row, off |-> vs.off, xcol |-> vs.xcol, regs |-> RegList(vs.ed), top |-> vs.top,
             ok |-> IF vs.ok THEN 1 ELSE 0]
(* properties of the reference itself, on every step: the cursor is on an existing character of an existing line and never
   on the newline of a non-empty line (C07); a motion never changes the text; every character is a scalar value (C16) *)
Thm(vs, c, t) ==
    /\ t.row >= 0 /\ (NR(t) = 0 => t.row = 0) /\ (NR(t) > 0 => t.row < NR(t))
    /\ t.off >= 0 /\ (NR(t) > 0 => t.off < Max2(1, Len(Lines(t.ed)[t.row + 1])))
    /\ (c.k = "mot" => Lines(t.ed) = Lines(vs.ed))
    /\ \A i \in 1..NR(t) : \A j \in 1..Len(Lines(t.ed)[i]) : Lines(t.ed)[i][j] < 1114112 /\ Lines(t.ed)[i][j] # NL
    /\ Lb!GhostMatches(t.ed.lb)

(* does the pattern contain a word-boundary anchor? *)
HasWB(re) == \E i \in 1..Len(re) - 1 : re[i] = 92 /\ re[i + 1] \in {60, 62}
RegNames == {0, 97, 98} \cup 49..57
RECURSIVE ConcatLines(_)
ConcatLines(ls) == IF ls = <<>> THEN <<>> ELSE IF Len(ls) = 1 THEN ls[1] ELSE ls[1] \o <<10>> \o ConcatLines(Tail(ls))
(* the first command of every script fills the buffer *)
FirstKeys(sd) == LET n == IF Profile = "scroll" THEN 9 + Pick(sd, 0, 0, 14) ELSE 4 + Pick(sd, 0, 0, 6) IN
                 ConcatLines([i \in 1..n |-> Elem(sd, 0, i, TextPool)])
Ins(keys) == [k |-> "ins", ik |-> "i", keys |-> keys, reg |-> 0, c1 |-> 0]
MotC(k, c1) == [k |-> "mot", m |-> Mot(k), c1 |-> c1, reg |-> 0]
RECURSIVE Script(_, _, _, _)
Script(vs, sd, t, n) ==
    IF t > n THEN <<>>
    ELSE LET c0 == IF t = 1 THEN [k |-> "ins", ik |-> "i", keys |-> FirstKeys(sd), reg |-> 0, c1 |-> 0] ELSE GenCmd(vs, sd, t)
             (* when the target of a change cannot be reached nothing is read after it: the text is not typed *)
             c == IF c0.k = "op" /\ c0.op \in {"c", "!"} /\ ~ViCmd(vs, c0).ok THEN [c0 EXCEPT !.op = "d", !.keys = <<>>] ELSE c0
             v1 == ViCmd(vs, c)
             (* the same command under the operational transcriptions: another state = a replay of a known finding; the script ends *)
             v1c == ViCmd([vs EXCEPT !.ed.code = TRUE], c)
             step == [keys |-> Keys(c), kind |-> c.k, sub |-> IF c.k = "mot" THEN c.m.k ELSE IF c.k = "op" THEN c.op ELSE c.k,
                      exp |-> Proj(v1), thm |-> IF Thm(vs, c, v1) THEN 1 ELSE 0]
         IN IF Proj(v1c) = Proj(v1) THEN <<step>> \o Script(v1, sd, t + 1, n)
            ELSE <<step @@ [alt |-> Proj(v1c), wb |-> IF HasWB(v1.ed.kwd) THEN 1 ELSE 0]>>

(* ---- C09: repeat, macros, counts -------------------------------------------------------------------------------------
   The input queue is modelled as it is: "." appends max(N,1) copies of the keys of the last repeatable command, "@r" copies of
   the register; queued keys are consumed, command by command, before anything typed.  `pending' holds the queued commands,
   `last' the last repeatable command, `macro' the commands whose keys register a holds.  Every command taken from the queue
   is checked with the same ViCmd as a typed one: that is "the same effect as retyping". *)
Repeatable(c) == \/ c.k \in {"op", "x", "X", "D", "C", "s", "S", "Y", "~", "ins", "p", "P", "J", "r"}
SubOf(c) == IF c.k = "mot" THEN c.m.k ELSE IF c.k = "op" THEN c.op ELSE c.k
MacroPool == << <<[k |-> "x", c1 |-> 0, reg |-> 0], MotC("l", 0)>>,
                <<[k |-> "op", op |-> "d", m |-> Mot("w"), c1 |-> 0, c2 |-> 0, reg |-> 0, keys |-> <<>>], MotC("j", 0)>>,
                <<[k |-> "~", c1 |-> 2, reg |-> 0], MotC("w", 0)>>,
                <<[k |-> "r", c1 |-> 0, ch |-> 88, reg |-> 0], MotC("l", 2), [k |-> "J", c1 |-> 0, reg |-> 0]>>,
                <<[k |-> "ins", ik |-> "a", keys |-> <<233, 98>>, reg |-> 0, c1 |-> 0], MotC("b", 0)>>,
                <<[k |-> "op", op |-> ">", m |-> Mot("dbl"), c1 |-> 0, c2 |-> 0, reg |-> 0, keys |-> <<>>],
                  [k |-> "op", op |-> "c", m |-> Mot("e"), c1 |-> 0, c2 |-> 0, reg |-> 98, keys |-> <<122, 32>>]>> >>
RECURSIVE KeysOfAll(_), Quote(_)
KeysOfAll(cs) == IF cs = <<>> THEN <<>> ELSE Keys(Head(cs)) \o KeysOfAll(Tail(cs))
Quote(ks) == IF ks = <<>> THEN <<>> ELSE (IF Head(ks) < 32 THEN <<22, Head(ks)>> ELSE <<Head(ks)>>) \o Quote(Tail(ks))   \* ^V before control keys
RECURSIVE Copies(_, _)
Copies(cs, k) == IF k = 0 THEN <<>> ELSE cs \o Copies(cs, k - 1)
GenRepeat(vs, sd, t, last, hasmacro) ==     \* what is typed next in the "repeat" profile
    LET q == Pick(sd, t, 40, 100)  cnt == Elem(sd, t, 41, <<0, 0, 0, 2, 3, 1>>) IN
    IF q < 28 /\ last.k # "none" THEN [k |-> "dot", c1 |-> cnt]
    ELSE IF q < 40 /\ hasmacro THEN [k |-> "at", c1 |-> cnt, again |-> Pick(sd, t, 42, 3) = 0]
    ELSE IF q < 46 /\ ~hasmacro /\ NR(vs) > 0 THEN [k |-> "defmacro", idx |-> 1 + Pick(sd, t, 43, Len(MacroPool))]
    ELSE LET c == GenCmd(vs, sd, t) IN
         (* register a belongs to the macro *)
         IF "reg" \in DOMAIN c /\ c.reg \in {97, 65} THEN [c EXCEPT !.reg = 98] ELSE c
RECURSIVE RScript(_, _, _, _, _, _, _, _)
RScript(vs, sd, t, n, pending, last, macro, atseen) ==
    IF t > n /\ pending = <<>> THEN <<>>
    ELSE IF pending # <<>> THEN
        LET p == Head(pending)
            c0 == p.c
            c == IF c0.k = "op" /\ c0.op \in {"c", "!"} /\ ~ViCmd(vs, c0).ok THEN [c0 EXCEPT !.op = "d", !.keys = <<>>] ELSE c0
            v1 == ViCmd(vs, c)
            (* a change whose target fails leaves its text in the queue: the keys would be read as commands; such queues are not generated *)
            bad == c0.k = "op" /\ c0.op \in {"c", "!"} /\ ~ViCmd(vs, c0).ok /\ ~p.typed      \* (likewise the command line of a filter)
        IN IF bad THEN <<[keys |-> <<>>, xkeys |-> <<>>, kind |-> "cut", sub |-> "cut", queued |-> 0, exp |-> Proj(vs), thm |-> 1]>>     \* the harness drops the repeat that led here
           ELSE <<[keys |-> IF p.typed THEN p.tkeys ELSE <<>>, xkeys |-> IF p.typed THEN p.tkeys ELSE Keys(c), kind |-> c.k, sub |-> SubOf(c),
                   queued |-> IF p.typed THEN 0 ELSE 1, exp |-> Proj(v1), thm |-> IF Thm(vs, c, v1) THEN 1 ELSE 0]>>
                \o RScript(v1, sd, t, n, Tail(pending), IF Repeatable(c) THEN c ELSE last, macro, atseen)
    ELSE LET g == IF t = 1 THEN [k |-> "ins", ik |-> "i", keys |-> FirstKeys(sd), reg |-> 0, c1 |-> 0]
                  (* profile rcorpus: one fixed script - a short insert repeated 104 times (5 bytes each): more than 512 bytes in the queue *)
                  ELSE IF Profile = "rcorpus" THEN (IF t = 2 THEN [k |-> "ins", ik |-> "A", keys |-> <<120, 233>>, reg |-> 0, c1 |-> 0]
                                                    ELSE IF t = 3 THEN [k |-> "dot", c1 |-> 104] ELSE MotC("0", 0))
                  ELSE GenRepeat(vs, sd, t, last, macro # <<>>) IN
         IF g.k = "dot" THEN
            <<[keys |-> CntKeys(g.c1) \o <<46>>, xkeys |-> <<>>, kind |-> "dot", sub |-> "dot", queued |-> 0, exp |-> Proj(vs), thm |-> 1,
               push |-> KeysOfAll(Copies(<<last>>, Max2(1, g.c1)))]>>
            \o RScript(vs, sd, t + 1, n, [i \in 1..Max2(1, g.c1) |-> [c |-> last, typed |-> FALSE, tkeys |-> <<>>]], last, macro, atseen)
         ELSE IF g.k = "at" THEN
            LET cs == Copies(macro, Max2(1, g.c1)) IN
            <<[keys |-> CntKeys(g.c1) \o (IF g.again /\ atseen THEN <<64, 64>> ELSE <<64, 97>>), xkeys |-> <<>>, kind |-> "at", sub |-> "at",
               queued |-> 0, exp |-> Proj(vs), thm |-> 1, push |-> KeysOfAll(cs)]>>
            \o RScript(vs, sd, t + 1, n, [i \in 1..Len(cs) |-> [c |-> cs[i], typed |-> FALSE, tkeys |-> <<>>]], last, macro, TRUE)
         ELSE IF g.k = "defmacro" THEN
            LET m == MacroPool[g.idx]
                open == [k |-> "ins", ik |-> "O", keys |-> Quote(KeysOfAll(m)), reg |-> 0, c1 |-> 0]
                (* typed in quoted form (^V before control keys): what lands in the buffer is the macro text itself *)
                yank == [k |-> "op", op |-> "y", m |-> Mot("$"), c1 |-> 0, c2 |-> 0, reg |-> 97, keys |-> <<>>]
                del == [k |-> "op", op |-> "d", m |-> Mot("dbl"), c1 |-> 0, c2 |-> 0, reg |-> 0, keys |-> <<>>]
            IN RScript(vs, sd, t + 1, n,
                       <<[c |-> open, typed |-> TRUE, tkeys |-> Keys(open)], [c |-> MotC("^", 0), typed |-> TRUE, tkeys |-> Keys(MotC("^", 0))],
                         [c |-> yank, typed |-> TRUE, tkeys |-> Keys(yank)], [c |-> del, typed |-> TRUE, tkeys |-> Keys(del)]>>,
                       last, m, atseen)
         (* a change or filter whose target cannot be reached reads nothing more: it is typed (and recorded for ".") as the
            equally failing deletion, without the text / the filter command *)
         ELSE LET gc == IF g.k = "op" /\ g.op \in {"c", "!"} /\ ~ViCmd(vs, g).ok THEN [g EXCEPT !.op = "d", !.keys = <<>>] ELSE g
              IN RScript(vs, sd, t + 1, n, <<[c |-> gc, typed |-> TRUE, tkeys |-> Keys(gc)]>>, last, macro, atseen)


Start0 == [NewVi(RegNames, {97, 98}) EXCEPT !.ai = EnvN("AI", 1) = 1, !.rows = EnvN("ROWS", 23)]
(* ---- exhaustive single steps (profile "exh") ----------------------------------------------------------------------------
   Every command of ExhCmds from every cursor position of a small buffer: the cursor is put on the position with G, 0 and l,
   the command runs, and an undo takes the text back when it changed.  All steps go through ViCmd like any other, so the
   model stays in step with the editor (registers, marks and the undo log accumulate).  EXHTEXT selects the buffer,
   EXHLO..EXHHI the range of positions of this table. *)
ExhTexts == << <<102,111,111,32,98,97,114,40,98,97,122,41,32,113,10,10,9,105,110,100,32,120,10,233,28450,32,120,769,121>>,
               <<97,46,98,44,32,99,10,123,10,9,9,120,32,125,32,121,10,125,10,32,32,116,119,111,32,32,115,112>>,
               <<102,40,97,44,10,32,32,32,32,32,32,98,41,32,120,10,97,97,97,32,98,98,98,32,32,10,65,98,32,97,66>> >>
MotCh(k, ch, c1) == [k |-> "mot", m |-> [k |-> k, ch |-> ch, re |-> <<>>, so |-> 0], c1 |-> c1, reg |-> 0]
OpC(op, m, c1, keys) == [k |-> "op", op |-> op, m |-> m, c1 |-> c1, c2 |-> 0, reg |-> 0, keys |-> keys]
ExhMotKs == <<"h", "l", "j", "k", "^", "$", "w", "b", "e", "W", "B", "E", "G", "+", "-", "_", "{", "}", "H", "M", "L", " ", "^H">>
ExhOpMs == <<Mot("w"), Mot("e"), Mot("b"), Mot("$"), Mot("0"), Mot("^"), Mot("l"), Mot("h"), Mot("j"), Mot("k"), Mot("dbl"), Mot("G"),
             Mot("%"), Mot("}"), [k |-> "f", ch |-> 97, re |-> <<>>, so |-> 0], [k |-> "t", ch |-> 32, re |-> <<>>, so |-> 0],
             Mot("W"), Mot("B"), Mot("{")>>
ExhOps == IF EnvN("EXHFULL", 0) = 1 THEN <<"d", "y", "c", "g~", ">", "gU", "<">> ELSE <<"d", "y", "c">>
ExhCnts == IF EnvN("EXHFULL", 0) = 1 THEN <<0, 2, 3>> ELSE <<0, 2>>
ExhCmds ==
    LET mots == [i \in 1..(Len(ExhMotKs) * Len(ExhCnts)) |->
                    MotC(ExhMotKs[((i - 1) \div Len(ExhCnts)) + 1], ExhCnts[((i - 1) % Len(ExhCnts)) + 1])]
        fixed == <<MotC("0", 0), MotC("%", 0), MotC("|", 0), MotC("|", 3), MotC("|", 9),
                   MotCh("f", 97, 0), MotCh("f", 32, 2), MotCh("F", 98, 0), MotCh("t", 120, 0), MotCh("T", 40, 0), MotCh("f", 233, 0), MotCh("t", 41, 0)>>
        ops == [i \in 1..(Len(ExhOps) * Len(ExhOpMs) * Len(ExhCnts)) |->
                   LET o == ExhOps[((i - 1) \div (Len(ExhOpMs) * Len(ExhCnts))) + 1]
                       m == ExhOpMs[(((i - 1) \div Len(ExhCnts)) % Len(ExhOpMs)) + 1]
                       c == ExhCnts[((i - 1) % Len(ExhCnts)) + 1]
                   IN OpC(o, m, IF m.k \in {"0", "%"} THEN 0 ELSE c, IF o = "c" THEN <<88, 233>> ELSE <<>>)]
        simple == <<[k |-> "x", c1 |-> 0, reg |-> 0], [k |-> "x", c1 |-> 3, reg |-> 0], [k |-> "X", c1 |-> 0, reg |-> 0], [k |-> "X", c1 |-> 2, reg |-> 0],
                    [k |-> "D", c1 |-> 0, reg |-> 0], [k |-> "~", c1 |-> 0, reg |-> 0], [k |-> "~", c1 |-> 3, reg |-> 0], [k |-> "Y", c1 |-> 0, reg |-> 0],
                    [k |-> "J", c1 |-> 0, reg |-> 0], [k |-> "J", c1 |-> 3, reg |-> 0],
                    [k |-> "r", c1 |-> 0, ch |-> 120, reg |-> 0], [k |-> "r", c1 |-> 2, ch |-> 233, reg |-> 0], [k |-> "r", c1 |-> 0, ch |-> 10, reg |-> 0],
                    [k |-> "p", c1 |-> 0, reg |-> 0], [k |-> "P", c1 |-> 0, reg |-> 0], [k |-> "p", c1 |-> 2, reg |-> 0],
                    [k |-> "C", c1 |-> 0, reg |-> 0, keys |-> <<90>>], [k |-> "s", c1 |-> 0, reg |-> 0, keys |-> <<90, 10, 121>>],
                    [k |-> "s", c1 |-> 2, reg |-> 0, keys |-> <<>>], [k |-> "S", c1 |-> 0, reg |-> 0, keys |-> <<233>>],
                    [k |-> "ins", ik |-> "i", keys |-> <<90>>, reg |-> 0, c1 |-> 0], [k |-> "ins", ik |-> "a", keys |-> <<90, 10>>, reg |-> 0, c1 |-> 0],
                    [k |-> "ins", ik |-> "I", keys |-> <<90>>, reg |-> 0, c1 |-> 0], [k |-> "ins", ik |-> "A", keys |-> <<233>>, reg |-> 0, c1 |-> 0],
                    [k |-> "ins", ik |-> "o", keys |-> <<90>>, reg |-> 0, c1 |-> 0], [k |-> "ins", ik |-> "O", keys |-> <<>>, reg |-> 0, c1 |-> 0]>>
    IN IF Env("EXHSET", "all") = "mot" THEN mots \o fixed ELSE IF Env("EXHSET", "all") = "edit" THEN ops \o simple ELSE mots \o fixed \o ops \o simple
ExhStep(vs, c0) ==      \* [st: the step record, v: the state after it]
    LET c == IF c0.k = "op" /\ c0.op = "c" /\ ~ViCmd(vs, c0).ok THEN [c0 EXCEPT !.op = "d", !.keys = <<>>] ELSE c0
        v1 == ViCmd(vs, c)
    IN [st |-> [keys |-> Keys(c), kind |-> c.k, sub |-> IF c.k = "mot" THEN c.m.k ELSE IF c.k = "op" THEN c.op ELSE c.k,
                exp |-> Proj(v1), thm |-> IF Thm(vs, c, v1) THEN 1 ELSE 0], v |-> v1]
ExhPositions(vs) == LET rows == 0..(NR(vs) - 1) IN
                    SetToSeq({<<r, o>> : r \in rows, o \in 0..24} \cap {<<r, o>> \in (rows \X (0..24)) : o < Max2(1, Len(Lines(vs.ed)[r + 1]))})
RECURSIVE ExhRun(_, _, _, _, _, _)
ExhRun(vs, plist, pi, ci, phi, cmds) ==
    IF pi > phi \/ pi > Len(plist) THEN <<>>
    ELSE IF ci > Len(cmds) THEN ExhRun(vs, plist, pi + 1, 1, phi, cmds)
    ELSE LET pos == plist[pi]
             a == ExhStep(vs, MotC("G", pos[1] + 1))
             b == ExhStep(a.v, MotC("0", 0))
             c == IF pos[2] > 0 THEN ExhStep(b.v, MotC("l", pos[2])) ELSE b
             d == ExhStep(c.v, cmds[ci])
             e == IF Lines(d.v.ed) # Lines(c.v.ed) THEN ExhStep(d.v, [k |-> "u", c1 |-> 0, reg |-> 0]) ELSE d
         IN <<a.st, b.st>> \o (IF pos[2] > 0 THEN <<c.st>> ELSE <<>>) \o <<d.st>> \o (IF Lines(d.v.ed) # Lines(c.v.ed) THEN <<e.st>> ELSE <<>>)
            \o ExhRun(e.v, plist, pi, ci + 1, phi, cmds)
ExhScript ==
    LET first == ExhStep(Start0, Ins(ExhTexts[EnvN("EXHTEXT", 1)]))
        plist == ExhPositions(first.v)
    IN [seed |-> 0 - (1000 * EnvN("EXHTEXT", 1) + EnvN("EXHLO", 1)), profile |-> "exh", ai |-> EnvN("AI", 1), npos |-> Len(plist),
        steps |-> <<first.st>> \o ExhRun(first.v, plist, EnvN("EXHLO", 1), 1, EnvN("EXHHI", 1), ExhCmds)]

(* fixed scripts: replays of findings that every run repeats *)
Corpus == <<
   (* KF-search-wordctx: /\<bar with the cursor inside "foobar" *)
   << Ins(<<102,111,111,98,97,114,32,98,97,114>>), MotC("0", 0), MotC("l", 2),
      [k |-> "mot", m |-> [k |-> "/", ch |-> 0, re |-> <<92,60,98,97,114>>, so |-> 0], c1 |-> 0, reg |-> 0] >>,
   (* fixed: 5N with a pattern matching the empty string over a line that is one multi-byte character *)
   << Ins(<<120,10,91,10,28450,10,32,97,97,99,10,98>>), MotC("G", 0), MotC("0", 0),
      [k |-> "mot", m |-> [k |-> "?", ch |-> 0, re |-> <<97,42>>, so |-> 0], c1 |-> 0, reg |-> 0],
      MotC("G", 0), MotC("0", 0), MotC("N", 0), MotC("G", 0), MotC("0", 0), MotC("n", 4), MotC("G", 0), MotC("n", 5), MotC("G", 0), MotC("n", 9) >> >>
RECURSIVE Fixed(_, _, _)
Fixed(vs, cs, t) ==
    IF t > Len(cs) THEN <<>>
    ELSE LET c == cs[t]  v1 == ViCmd(vs, c)  v1c == ViCmd([vs EXCEPT !.ed.code = TRUE], c)
             step == [keys |-> Keys(c), kind |-> c.k, sub |-> IF c.k = "mot" THEN c.m.k ELSE IF c.k = "op" THEN c.op ELSE c.k,
                      exp |-> Proj(v1), thm |-> IF Thm(vs, c, v1) THEN 1 ELSE 0]
         IN IF Proj(v1c) = Proj(v1) THEN <<step>> \o Fixed(v1, cs, t + 1)
            ELSE <<step @@ [alt |-> Proj(v1c), wb |-> IF HasWB(v1.ed.kwd) THEN 1 ELSE 0]>>

Seed0 == EnvN("SEED0", 1)
NScripts == EnvN("NSCRIPTS", 4)
NSteps == EnvN("NSTEPS", 30)
Start == Start0
Table == IF Profile = "corpus"
         THEN [k \in 1..Len(Corpus) |-> [seed |-> -k, profile |-> "corpus", ai |-> 1, steps |-> Fixed(Start, Corpus[k], 1)]]
         ELSE IF Profile = "exh" THEN <<ExhScript>>
         ELSE IF Profile \in {"repeat", "rcorpus"}
         THEN [k \in 1..NScripts |-> [seed |-> Seed0 + k - 1, profile |-> Profile, ai |-> EnvN("AI", 1),
                                       steps |-> RScript(Start, Seed0 + k - 1, 1, NSteps, <<>>, [k |-> "none"], <<>>, FALSE)]]
         ELSE [k \in 1..NScripts |-> [seed |-> Seed0 + k - 1, profile |-> Profile, ai |-> EnvN("AI", 1),
                                 steps |-> Script(Start, Seed0 + k - 1, 1, NSteps)]]
Init == dummy = 0 /\ ndJsonSerialize(Env("OUT", "/tmp/gen_vi.ndjson"), Table)
Next == UNCHANGED dummy
Spec == Init /\ [][Next]_dummy
=============================================================================
