-------------------------------- MODULE MC_Ex --------------------------------
(***************************************************************************)
(* Exhaustive small-scope model of the ex line editor (C06, C04, C14, C15  *)
(* at design level): from a three-line buffer, every history of MaxSteps   *)
(* prompt lines over Gen_Ex!ExhCmds.  TLC checks in every reachable state  *)
(* and on every step:                                                       *)
(*   Frame      only the addressed range is replaced; every other line     *)
(*              keeps its bytes and its order (C06);                        *)
(*   Rejected   a command whose address does not resolve leaves text,      *)
(*              marks and registers alone (C06);                            *)
(*   MarkStays  a mark keeps designating the same line while lines are     *)
(*              added or removed elsewhere (C06);                           *)
(*   OneStep    whatever one prompt line changed is taken back by one undo *)
(*              and reinstated by one redo (C04, C15);                      *)
(*   Inv        undo log and ghost stacks consistent, current line >= 0,   *)
(*              every character a scalar value (C16).                       *)
(* The same command lines are typed into the editor by the profile exh of  *)
(* Gen_Ex (harness/editor.py), which binds this model to the code.         *)
(***************************************************************************)
EXTENDS Gen_Ex
CONSTANT MaxSteps
VARIABLES ed, steps, last          \* last: the command line that led here (ghost)

MCInit == dummy = 0 /\ ed = ExLine(NewEd(RegNames, {97, 98}), ExhInit) /\ steps = 0 /\ last = <<>>
MCNext == /\ steps < MaxSteps
          /\ \E i \in 1..Len(ExhCmds) : ed' = ExLine(ed, ExhCmds[i]) /\ last' = ExhCmds[i]
          /\ steps' = steps + 1 /\ UNCHANGED dummy
MCSpec == MCInit /\ [][MCNext]_<<dummy, ed, steps, last>>
MCView == <<ed, steps>>

Inv == /\ ed.row >= 0
       /\ Lb!GhostMatches(ed.lb) /\ Lb!AtBoundary(ed.lb)
       /\ \A i \in 1..NLines(ed) : \A j \in 1..Len(Lines(ed)[i]) : Lines(ed)[i][j] >= 1 /\ Lines(ed)[i][j] < 1114112 /\ Lines(ed)[i][j] # NL

(* single-command lines only: what the command may touch *)
Single == Len(last') = 1
C == last'[1]
Reg == Region(ed, C.loc)
Kept(a, b, k) == SubSeq(a, 1, k) = SubSeq(b, 1, k)                                                  \* the first k lines
KeptTail(a, b, k) == Len(a) >= k /\ Len(b) >= k /\ SubSeq(a, Len(a) - k + 1, Len(a)) = SubSeq(b, Len(b) - k + 1, Len(b))      \* the last k lines
Frame == Single =>
    LET r == Reg  n == NLines(ed)  old == Lines(ed)  new == Lines(ed') IN
    /\ (C.k \in {"d", "c", "s", "!"} /\ r.ok /\ ed'.ret = 0) => (Kept(old, new, r.beg) /\ KeptTail(old, new, n - Min2(r.end, n)))
    /\ (C.k \in {"a", "i", "pu", "r"} /\ ed'.ret = 0) =>         \* pure insertion: the old lines, in order, around one block
          \E k \in 0..n : Kept(old, new, k) /\ KeptTail(old, new, n - k) /\ Len(new) >= n
    /\ (C.k \in {"y", "p", "=", "k", "null", "rs"}) => new = old
Rejected == (Single /\ C.k \in {"d", "c", "y", "pu", "p", "=", "k", "s", "!", "r", "null"} /\ ~Reg.ok /\ ~(C.k \in {"a", "i", "c"}))
            => (Lines(ed') = Lines(ed) /\ ed'.ret # 0 /\ ed'.regs = ed.regs /\ ed'.marks = ed.marks)
MarkStays == (Single /\ C.k \notin {"u", "redo", "g", "v"}) =>
    \A m \in DOMAIN ed.marks :
        (ed.marks[m].row >= 0 /\ ed.marks[m].solid /\ ed.marks[m].known /\ ed'.marks[m].row >= 0 /\ ed'.marks[m].solid /\ ed'.marks[m].known
         /\ ~(C.k = "k" /\ C.m = m))
        => (ed'.marks[m].row < NLines(ed') /\ Lines(ed')[ed'.marks[m].row + 1] = Lines(ed)[ed.marks[m].row + 1])
OneStep == (ed'.lb.hist # ed.lb.hist /\ \A i \in 1..Len(last') : last'[i].k \notin {"u", "redo"})
           => LET u == Lb!Undo(ed'.lb) IN u.ret = 0 /\ u.lines = Lines(ed) /\ Lb!Redo(u).lines = Lines(ed')
StepProps == [][Frame /\ Rejected /\ MarkStays /\ OneStep]_<<dummy, ed, steps, last>>
=============================================================================
