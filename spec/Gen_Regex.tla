----------------------------- MODULE Gen_Regex -----------------------------
(* Case tables for C10 / C11 / C12: TLC evaluates the reference semantics of  *)
(* Regex.tla on a finite domain and writes the expected results as NDJSON;    *)
(* harness/reprobe.c evaluates the C functions on the same cases (M2).        *)
(* Parameters come from the environment: MODE, LO, HI, LMAX, OUT.             *)
EXTENDS Regex, Json, IOUtils, SequencesExt

VARIABLE dummy

Env(k, d) == IF k \in DOMAIN IOEnv THEN IOEnv[k] ELSE d
EnvN(k, d) == IF k \in DOMAIN IOEnv THEN atoi(IOEnv[k]) ELSE d

Tokens == << <<97>>, <<98>>, <<233>>, <<46>>, <<91,97,98,93>>, <<91,94,97,93>>, <<91,97,45,98,93>>,
             <<91,91,58,97,108,112,104,97,58,93,93>>, <<94>>, <<36>>, <<92,60>>, <<92,62>>,
             <<40>>, <<41>>, <<124>>, <<42>>, <<43>>, <<63>>, <<123,48,44,50,125>>, <<123,50,125>>,
             <<123,49,44,125>> >>
NT == Len(Tokens)

(* C11: single symbols, chosen to reach every branch of the parser incl. the malformed ones *)
Syms == <<97, 40, 41, 91, 93, 94, 36, 124, 42, 43, 63, 123, 125, 44, 49, 50, 92, 60, 46, 45, 58>>
NS == Len(Syms)
RECURSIVE SymSeq(_)
SymSeq(k) == IF k = 0 THEN <<>> ELSE SymSeq((k - 1) \div NS) \o <<Syms[((k - 1) % NS) + 1]>>

(* bijective base-NT numeration: 0 -> <<>>, 1..NT -> one token, ... *)
RECURSIVE TokSeq(_)
TokSeq(k) == IF k = 0 THEN <<>> ELSE TokSeq((k - 1) \div NT) \o Tokens[((k - 1) % NT) + 1]

Mode == Env("MODE", "tok")
(* ALPHA = 2: characters that differ from one another in bit 5 only without being a letter pair (@ `, _ DEL, the second
   bytes of e-acute and E-acute), for case folding *)
LineAlpha == IF Mode = "lit" THEN (IF EnvN("ALPHA", 1) = 2 THEN <<96, 64, 201, 233, 127, 95>> ELSE <<97, 65, 98, 233, 95, 32>>)
             ELSE <<97, 98, 65, 233, 32>>
NA == Len(LineAlpha)

(* C12: anchors x literal.  k = 16 * literal index + anchor mask *)
LitAlpha == IF EnvN("ALPHA", 1) = 2 THEN <<64, 96, 233, 95, 201>> ELSE <<97, 65, 98, 233, 95>>
RECURSIVE LitOf(_)
LitOf(k) == IF k = 0 THEN <<>> ELSE LitOf((k - 1) \div 5) \o <<LitAlpha[((k - 1) % 5) + 1]>>
LitPat(k) == LET m == k % 16  l == LitOf(k \div 16) IN
             (IF m % 2 = 1 THEN <<94>> ELSE <<>>) \o (IF (m \div 2) % 2 = 1 THEN <<92, 60>> ELSE <<>>) \o l \o
             (IF (m \div 4) % 2 = 1 THEN <<92, 62>> ELSE <<>>) \o (IF (m \div 8) % 2 = 1 THEN <<36>> ELSE <<>>)
RECURSIVE LineOf(_)
LineOf(k) == IF k = 0 THEN <<>> ELSE LineOf((k - 1) \div NA) \o <<LineAlpha[((k - 1) % NA) + 1]>>
RECURSIVE CountUpTo(_)
CountUpTo(l) == IF l = 0 THEN 1 ELSE CountUpTo(l - 1) * NA + 1      \* number of strings of length <= l
Lines(lmax) == [k \in 1..CountUpTo(lmax) |-> LineOf(k - 1) \o <<NL>>]

Bools == <<FALSE, TRUE>>
B2N(b) == IF b THEN 1 ELSE 0
NG == 4     \* groups requested from the matcher

(* syntactic: can n match the empty string? / is there an unbounded repetition of a nullable body? *)
RECURSIVE Nullable1(_), NullableN(_), EmptyLoop(_)
Nullable1(n) == IF n.t \in {"chr"} THEN n.s = <<>>
                ELSE IF n.t \in {"any", "brk"} THEN FALSE
                ELSE IF n.t \in {"beg", "end", "wbeg", "wend"} THEN TRUE
                ELSE IF n.t = "cat" THEN NullableN(n.a) /\ NullableN(n.b)
                ELSE IF n.t = "alt" THEN NullableN(n.a) \/ NullableN(n.b)
                ELSE NullableN(n.a)
NullableN(n) == n = Null \/ n.lo = 0 \/ Nullable1(n)
EmptyLoop(n) == n # Null /\ ((n.hi < 0 /\ Nullable1(n)) \/ EmptyLoop(n.a) \/ EmptyLoop(n.b))

Flat(r) == IF r = <<>> THEN <<>>
           ELSE <<r[1]>> \o ConcatAll([j \in 1..Len(r[2]) |-> r[2][j]])

Cx(line, f) == [s |-> line, ic |-> Bools[((f - 1) % 2) + 1], nb |-> Bools[(((f - 1) \div 2) % 2) + 1],
               ne |-> Bools[(((f - 1) \div 4) % 2) + 1], nl |-> TRUE]

(* the spec agrees with itself: the engine-ordered choice is a member of the declarative
   language and starts at the leftmost position where any match exists *)
Thm(w, cx) == LET r == Search(w.node, Max2(w.ngrp, 1), cx) IN
              IF r = <<>> THEN LeftmostStart(w.node, cx) = -1
              ELSE Matches(w.node, r[1], r[2], cx) /\ r[1] = LeftmostStart(w.node, cx)

(* every genuine span of the whole pattern, as <<so, eo>> *)
Spans(n, cx) == SetToSeq({<<i - 1, j - 1>> : i \in 1..Len(cx.s) + 1, j \in 1..Len(cx.s) + 1} \cap
                         UNION {{<<i - 1, j - 1>> : j \in Ends(n, i, cx)} : i \in 1..Len(cx.s) + 1})

(* an unbounded (or large) repetition whose body contains another one: the backtracking matcher tries exponentially many
   ways of splitting a run between the two loops before it gives up, e.g. (a+)*b on a line of a's *)
Loopish(n) == n.hi < 0 \/ n.hi >= 4
RECURSIVE HasLoop(_), NestedLoop(_)
HasLoop(n) == n # Null /\ (Loopish(n) \/ HasLoop(n.a) \/ HasLoop(n.b))
NestedLoop(n) == n # Null /\ ((Loopish(n) /\ (HasLoop(n.a) \/ HasLoop(n.b))) \/ NestedLoop(n.a) \/ NestedLoop(n.b))

(* one pattern against the line family under every flag combination *)
PatCase(p, lines) ==
    LET pr == ParseRe(p)
        w  == ParseRe(WrapSet(<<p>>))
        sp == Simple(p)
    IN [p |-> p, ok |-> B2N(w.ok), clean |-> B2N(pr.clean /\ w.clean), flaw |-> w.flaw,
        alloc |-> IF w.ok THEN CountEst(w.node) + 3 ELSE 0,
        used |-> IF w.ok THEN EmitLen(w.node) + 3 ELSE 0,
        wf |-> B2N(WellFormed(w.node)),
        eloop |-> B2N(EmptyLoop(w.node)),
        nest |-> B2N(NestedLoop(w.node)),
        simple |-> B2N(sp.simple), hasop |-> B2N(HasOperator(p, 1)),
        thm |-> B2N(~(pr.clean /\ w.clean) \/ \A li \in 1..Len(lines) : \A f \in 1..8 : Thm(w, Cx(lines[li], f))),
        res |-> IF ~(pr.clean /\ w.clean) THEN <<>>
                ELSE ConcatAll([li \in 1..Len(lines) |->
                      [f \in 1..8 |->
                         LET cx == Cx(lines[li], f)
                         IN <<li, f, Flat(SetFind(<<p>>, NG, cx)),
                              IF sp.simple THEN SimpleFind(sp, lines[li], cx.ic, cx.nb, cx.ne) ELSE <<-2>>,
                              IF EmptyLoop(w.node) THEN Spans(w.node, cx) ELSE <<>> >>]])]

Lo == EnvN("LO", 0)
Hi == EnvN("HI", 10)
LMax == EnvN("LMAX", 2)

IdxList == IF Mode \in {"list", "symlist", "cplist", "cplines"} THEN ndJsonDeserialize(Env("IDXFILE", "")) ELSE <<>>
Table == LET lines == Lines(LMax) IN
         <<[lines |-> lines]>> \o
         (IF Mode = "list" THEN [k \in 1..Len(IdxList) |-> PatCase(ConcatAll([i \in 1..Len(IdxList[k]) |-> Tokens[IdxList[k][i]]]), lines)]
          ELSE IF Mode = "sym" THEN [k \in 1..(Hi - Lo) |-> PatCase(SymSeq(Lo + k - 1), <<>>)]
          ELSE IF Mode = "symlist" THEN [k \in 1..Len(IdxList) |->
                                     PatCase([i \in 1..Len(IdxList[k]) |-> Syms[IdxList[k][i]]], <<>>)]
          ELSE IF Mode = "cplines" THEN [k \in 1..Len(IdxList) |-> PatCase(IdxList[k], lines)]
          ELSE IF Mode = "cplist" THEN [k \in 1..Len(IdxList) |-> PatCase(IdxList[k], <<>>)]
          ELSE IF Mode = "lit" THEN [k \in 1..(Hi - Lo) |-> PatCase(LitPat(Lo + k - 1), lines)]
          ELSE [k \in 1..(Hi - Lo) |-> PatCase(TokSeq(Lo + k - 1), lines)])

Init == dummy = 0 /\ ndJsonSerialize(Env("OUT", "/tmp/gen_regex.ndjson"), Table)
Next == UNCHANGED dummy
Spec == Init /\ [][Next]_dummy
=============================================================================
