-------------------------------- MODULE Utf8 --------------------------------
(***************************************************************************)
(* UTF-8 arithmetic of neatvi (uc.c) against code-point segmentation (C16). *)
(* A string is a sequence of code points; its encoding a sequence of bytes. *)
(* Byte positions are 0-based offsets as in the C code.                      *)
(*  - declarative: everything defined from the list of code points           *)
(*  - operational: transcriptions of uc_len/uc_end/uc_beg/uc_next/uc_prev/   *)
(*    uc_off/uc_chr over bytes; TLC checks that both agree on valid strings  *)
(***************************************************************************)
EXTENDS Naturals, Integers, Sequences, FiniteSets, TLC

Enc(c) == IF c < 128 THEN <<c>>
          ELSE IF c < 2048 THEN <<192 + (c \div 64), 128 + (c % 64)>>
          ELSE IF c < 65536 THEN <<224 + (c \div 4096), 128 + ((c \div 64) % 64), 128 + (c % 64)>>
          ELSE <<240 + (c \div 262144), 128 + ((c \div 4096) % 64), 128 + ((c \div 64) % 64), 128 + (c % 64)>>

RECURSIVE EncAll(_)
EncAll(cps) == IF cps = <<>> THEN <<>> ELSE Enc(Head(cps)) \o EncAll(Tail(cps))

(* byte offset at which character k (0-based) starts; k = Len(cps) gives the total length *)
RECURSIVE StartOf(_, _)
StartOf(cps, k) == IF k = 0 THEN 0 ELSE StartOf(cps, k - 1) + Len(Enc(cps[k]))
NBytes(cps) == StartOf(cps, Len(cps))
(* index (0-based) of the character containing byte offset o, for 0 <= o < NBytes *)
CharAt(cps, o) == CHOOSE k \in 0..Len(cps) - 1 : StartOf(cps, k) <= o /\ o < StartOf(cps, k + 1)

(* ---- uc.c, operational, over a byte sequence b (0 past the end) ---------- *)
B(b, o) == IF o >= 0 /\ o < Len(b) THEN b[o + 1] ELSE 0
IsCont(x) == x >= 128 /\ x < 192
LeadLen(x) == IF x = 0 THEN 0 ELSE IF x < 192 THEN 1 ELSE IF x < 224 THEN 2 ELSE IF x < 240 THEN 3
              ELSE IF x < 248 THEN 4 ELSE 1                                    \* uc_len
Code(b, o) == LET c == B(b, o) IN                                              \* uc_code
    IF c < 192 THEN c
    ELSE IF c < 224 THEN (c % 32) * 64 + (B(b, o + 1) % 64)
    ELSE IF c < 240 THEN (c % 16) * 4096 + (B(b, o + 1) % 64) * 64 + (B(b, o + 2) % 64)
    ELSE IF c < 248 THEN (c % 8) * 262144 + (B(b, o + 1) % 64) * 4096 + (B(b, o + 2) % 64) * 64 + (B(b, o + 3) % 64)
    ELSE c
RECURSIVE SkipCont(_, _)
SkipCont(b, o) == IF IsCont(B(b, o)) THEN SkipCont(b, o + 1) ELSE o
UcEnd(b, o) == IF B(b, o) < 128 THEN o                                         \* uc_end
               ELSE SkipCont(b, IF B(b, o) >= 192 THEN o + 1 ELSE o) - 1
UcNext(b, o) == LET e == UcEnd(b, o) IN IF B(b, e) # 0 THEN e + 1 ELSE e       \* uc_next
RECURSIVE UcBeg(_, _)
UcBeg(b, o) == IF o > 0 /\ IsCont(B(b, o)) THEN UcBeg(b, o - 1) ELSE o         \* uc_beg(beg, s)
UcPrev(b, o) == IF o = 0 THEN 0 ELSE UcBeg(b, o - 1)                           \* uc_prev
RECURSIVE UcSlenFrom(_, _)
UcSlenFrom(b, o) == IF B(b, o) = 0 THEN 0 ELSE 1 + UcSlenFrom(b, UcEnd(b, o) + 1)
UcSlen(b) == UcSlenFrom(b, 0)                                                  \* uc_slen
RECURSIVE UcOffFrom(_, _, _)
UcOffFrom(b, o, e) == IF o < e /\ B(b, o) # 0 THEN 1 + UcOffFrom(b, UcNext(b, o), e) ELSE 0
UcOff(b, e) == UcOffFrom(b, 0, e)                                              \* uc_off(s, off)
(* uc_chr(s, off): byte offset of the off-th character; beyond the last character the result is an empty string,   *)
(* identified with the end of s (the code returns the terminator of s; before the repair it was a static "")      *)
RECURSIVE UcChrFrom(_, _, _, _)
UcChrFrom(b, o, i, off) == IF B(b, o) = 0 THEN o
                           ELSE IF i = off THEN o ELSE UcChrFrom(b, UcNext(b, o), i + 1, off)
UcChr(b, off) == UcChrFrom(b, 0, 0, off)

(* ---- expected results for a valid string, from the code points only ------- *)
ChrRef(cps, off) == IF off < 0 THEN NBytes(cps) ELSE IF off <= Len(cps) THEN StartOf(cps, off) ELSE NBytes(cps)
OffRef(cps, e)   == Cardinality({k \in 0..Len(cps) - 1 : StartOf(cps, k) < e})
SubRef(cps, a, z) == EncAll(SubSeq(cps, a + 1, z))
NextRef(cps, k)  == IF k < Len(cps) THEN StartOf(cps, k + 1) ELSE NBytes(cps)
PrevRef(cps, k)  == IF k = 0 THEN 0 ELSE StartOf(cps, k - 1)

(* the two formulations agree, and the mutual-consistency laws of the property hold *)
Laws(cps) ==
    LET b == EncAll(cps)  n == Len(cps)  nb == NBytes(cps) IN
    /\ Len(b) = nb /\ UcSlen(b) = n
    /\ \A k \in 0..n - 1 : /\ LeadLen(B(b, StartOf(cps, k))) = Len(Enc(cps[k + 1]))
                           /\ Code(b, StartOf(cps, k)) = cps[k + 1]
                           /\ UcNext(b, StartOf(cps, k)) = NextRef(cps, k)
                           /\ UcEnd(b, StartOf(cps, k)) = StartOf(cps, k + 1) - 1
                           /\ UcPrev(b, UcNext(b, StartOf(cps, k))) = (IF k = n - 1 THEN PrevRef(cps, n) ELSE StartOf(cps, k))
                           /\ UcOff(b, StartOf(cps, k)) = k /\ UcChr(b, k) = StartOf(cps, k)
    /\ \A k \in 0..n : UcPrev(b, StartOf(cps, k)) = PrevRef(cps, k)
    /\ \A o \in 0..nb - 1 : UcBeg(b, o) = StartOf(cps, CharAt(cps, o)) /\ UcOff(b, o) = OffRef(cps, o)
    /\ \A off \in -1..n + 1 : UcChr(b, off) = ChrRef(cps, off)
    /\ \A a \in 0..n : \A m \in a..n : \A z \in m..n : SubRef(cps, a, m) \o SubRef(cps, m, z) = SubRef(cps, a, z)
=============================================================================
