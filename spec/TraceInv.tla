------------------------------- MODULE TraceInv -------------------------------
(***************************************************************************)
(* Trace validation for C05 (and the invariants every property relies on):  *)
(* every state recorded by the traced binary, for any key or command        *)
(* stream, satisfies the global invariants of the editor state:             *)
(*   - every line of the current buffer is valid UTF-8 whenever everything  *)
(*     typed and read was (no raw byte, no newline inside a line),          *)
(*   - the buffer table is well-formed (slot 1 occupied, free slots at the  *)
(*     end, distinct ids, at most 16 buffers),                              *)
(*   - the undo cursor lies inside the log,                                 *)
(*   - at a vi command boundary the cursor is on an existing character of   *)
(*     an existing line and the window contains the cursor line.            *)
(* Records: ev = "st" with kind "vi" | "ex"; ev = "reset" between sessions. *)
(* Violations are accumulated, never blocking.                              *)
(***************************************************************************)
EXTENDS Naturals, Integers, Sequences, FiniteSets, TLC, Json, IOUtils
VARIABLES l, viol, nchk
Tr == ndJsonDeserialize(IOEnv.TRACE)
Rec == Tr[l]
Flag(ok, what, detail) == IF ok THEN <<>> ELSE <<[line |-> l, what |-> what, detail |-> detail]>>
Max2(a, b) == IF a < b THEN b ELSE a

ScalarLine(ln) == \A j \in 1..Len(ln) : ln[j] >= 1 /\ ln[j] < 1114112 /\ ln[j] # 10 /\ ~(ln[j] >= 55296 /\ ln[j] < 57344)
TableOK(ids) ==      \* ids: the 16 slots, 0 for a free slot
    /\ Len(ids) = 16 /\ ids[1] # 0
    /\ \A i \in 1..15 : ids[i] = 0 => ids[i + 1] = 0
    /\ \A i, j \in 1..16 : (i # j /\ ids[i] # 0) => ids[i] # ids[j]
Check(r) ==
    LET n == Len(r.lines) IN
    Flag(r.big = 1 \/ \A i \in 1..n : ScalarLine(r.lines[i]), "utf8", "a buffer line holds a raw byte, a surrogate or a newline")
    \o Flag(TableOK(r.ids), "table", r.ids)
    \o Flag(r.hu >= 0 /\ r.hu <= r.hn, "undo", <<r.hu, r.hn>>)
    \o (IF r.kind = "vi" /\ r.done = 1
        THEN Flag(r.row >= 0 /\ r.row < Max2(1, r.n), "cursor-line", <<r.row, r.n>>)
             \o Flag(r.big = 1 \/ r.row >= n \/ (r.off >= 0 /\ r.off < Max2(1, Len(r.lines[r.row + 1]))), "cursor-offset", <<r.row, r.off>>)
             \* a window split down to no text rows shows nothing: nothing to require
             \o Flag(r.rows < 1 \/ (r.top >= 0 /\ r.top <= r.row /\ r.row < r.top + r.rows), "window", <<r.top, r.row, r.rows>>)
        ELSE <<>>)
Init == l = 1 /\ viol = <<>> /\ nchk = 0
Next == /\ l <= Len(Tr) /\ l' = l + 1
        /\ IF Rec.ev = "st" THEN viol' = viol \o Check(Rec) /\ nchk' = nchk + 1 ELSE UNCHANGED <<viol, nchk>>
Spec == Init /\ [][Next]_<<l, viol, nchk>>
Report == l = Len(Tr) + 1 => PrintT(<<"VIOL", ToJson([violations |-> viol, checked |-> nchk])>>)
Complete == TLCGet("stats").diameter - 1 = Len(Tr)
=============================================================================
