SPECIFICATION Spec
CONSTANTS MaxLen = 3
          MaxIns = 2
          MaxHist = 3
          MaxSeq = 4
          MaxId = 4
          Dump = FALSE
INVARIANT Inv
PROPERTY ActionProps
CHECK_DEADLOCK FALSE
VIEW View
