------------------------------- MODULE Regex -------------------------------
(***************************************************************************)
(* Reference semantics of neatvi's regular expressions (regex.c, rset.c,    *)
(* rstr.c).  Text is sequences of code points.  Positions are 1-based       *)
(* indices of the next character; reported offsets are position - 1.        *)
(*                                                                          *)
(*  - ParseRe      the parser of regex.c as a function (incl. what it       *)
(*                 rejects and where it stops reading)                      *)
(*  - CountEst / EmitLen   regcomp's size estimate vs. what it emits (C11)  *)
(*  - M / Search   ordered (greedy, left-biased) matching with captures:    *)
(*                 the sequence of all parses in the engine's preference    *)
(*                 order (C10)                                              *)
(*  - Ends         declarative language membership, independent of order    *)
(*  - WrapSet, SetFind   the pattern-set layer of rset.c                    *)
(*  - IsSimple, SimpleFind   the literal fast path of rstr.c (C12)          *)
(***************************************************************************)
EXTENDS Naturals, Integers, Sequences, FiniteSets, TLC

NL == 10
NREPS == 128
NGRPS == 64

Max2(a, b) == IF a < b THEN b ELSE a
At(p, k) == IF k >= 1 /\ k <= Len(p) THEN p[k] ELSE 0

IsDigit(c) == c >= 48 /\ c <= 57
IsUpper(c) == c >= 65 /\ c <= 90
IsLower(c) == c >= 97 /\ c <= 122
IsAlnumA(c) == IsDigit(c) \/ IsUpper(c) \/ IsLower(c)
Fold(c)    == IF IsUpper(c) THEN c + 32 ELSE c
IsWordCp(c) == IsAlnumA(c) \/ c = 95 \/ c > 127     \* isword() of regex.c / rstr.c

Specials == {46, 94, 36, 91, 40, 124, 41, 42, 63, 43, 123, 92}   \* .^$[(|)*?+{\
Quants   == {42, 63, 43, 123}                                     \* *?+{

RECURSIVE ConcatAll(_)
ConcatAll(ss) == IF ss = <<>> THEN <<>> ELSE Head(ss) \o ConcatAll(Tail(ss))

Null == [t |-> "null"]
Node(t, a, b) == [t |-> t, a |-> a, b |-> b, lo |-> 1, hi |-> 1, s |-> <<>>, g |-> 0]
AtomN(t, s)   == [t |-> t, a |-> Null, b |-> Null, lo |-> 1, hi |-> 1, s |-> s, g |-> 0]

(***************************************************************************)
(* Parser.  Every operator returns <<node-or-Null, position, flaw>>; flaw   *)
(* is "" or names a place where regex.c misbehaves on malformed input       *)
(* ("hang": dangling backslash, "overrun": '{' not closed before the end).  *)
(***************************************************************************)
(* brk_len(): length of the bracket expression starting at k *)
RECURSIVE BrkScan(_, _)
BrkScan(p, n) ==        \* n: position inside the bracket; returns position of the closing ] or of NUL
    IF At(p, n) = 0 \/ At(p, n) = 93 THEN n
    ELSE IF At(p, n) = 91 /\ (At(p, n + 1) = 58 \/ At(p, n + 1) = 61)
         THEN LET RECURSIVE Skip(_)
                  Skip(m) == IF At(p, m) = 0 \/ At(p, m) = 93 THEN m ELSE Skip(m + 1)
                  m == Skip(n)
              IN BrkScan(p, IF At(p, m) # 0 THEN m + 1 ELSE m)
         ELSE BrkScan(p, n + 1)
BrkLen(p, k) ==
    LET n1 == IF At(p, k + 1) = 94 THEN k + 2 ELSE k + 1
        n2 == IF At(p, n1) = 93 THEN n1 + 1 ELSE n1
        n3 == BrkScan(p, n2)
    IN IF At(p, n3) = 93 THEN n3 + 1 - k ELSE n3 - k

(* end of a literal run starting at k (ratom_read, default case) *)
RECURSIVE LitEnd(_, _, _)
LitEnd(p, k, s) ==
    IF s # k /\ (At(p, s) = 0 \/ At(p, s) \in Specials) THEN s
    ELSE IF s # k /\ At(p, s + 1) # 0 /\ At(p, s + 1) \in Quants THEN s
    ELSE LitEnd(p, k, s + 1)

ReadAtom(p, k) ==
    LET c == At(p, k) IN
    IF c = 46 THEN <<AtomN("any", <<>>), k + 1, "">>
    ELSE IF c = 94 THEN <<AtomN("beg", <<>>), k + 1, "">>
    ELSE IF c = 36 THEN <<AtomN("end", <<>>), k + 1, "">>
    ELSE IF c = 91 THEN LET n == BrkLen(p, k) IN <<AtomN("brk", SubSeq(p, k + 1, k + n - 1)), k + n, "">>
    ELSE IF c = 92 /\ At(p, k + 1) = 60 THEN <<AtomN("wbeg", <<>>), k + 2, "">>
    ELSE IF c = 92 /\ At(p, k + 1) = 62 THEN <<AtomN("wend", <<>>), k + 2, "">>
    ELSE LET k1 == IF c = 92 THEN k + 1 ELSE k IN
         IF At(p, k1) = 0 THEN <<Null, k1, "hang">>
         ELSE LET e == LitEnd(p, k1, k1) IN <<AtomN("chr", SubSeq(p, k1, e - 1)), e, "">>

RECURSIVE Digits(_, _, _)
Digits(p, k, acc) == IF IsDigit(At(p, k))       \* the accumulator saturates above NREPS (rejected afterwards)
                     THEN Digits(p, k + 1, IF acc <= NREPS THEN acc * 10 + (At(p, k) - 48) ELSE acc)
                     ELSE <<acc, k>>

(* the repetition suffixes of rnode_atom *)
Quantify(p, n, k0) ==
    LET c1 == At(p, k0)
        q1 == IF c1 = 42 THEN <<0, -1, k0 + 1>> ELSE IF c1 = 63 THEN <<0, 1, k0 + 1>> ELSE <<n.lo, n.hi, k0>>
        q2 == IF At(p, q1[3]) = 43 THEN <<1, -1, q1[3] + 1>> ELSE q1
        k2 == q2[3]
    IN IF At(p, k2) # 123 THEN <<[n EXCEPT !.lo = q2[1], !.hi = q2[2]], k2, "">>
       ELSE LET d1 == Digits(p, k2 + 1, 0)
                lo == d1[1]
                k3 == d1[2]
                hk == IF At(p, k3) = 44
                      THEN IF At(p, k3 + 1) = 125 THEN <<-1, k3 + 1>>
                           ELSE Digits(p, k3 + 1, 0)
                      ELSE <<lo, k3>>
                hi == hk[1]
                k4 == hk[2]
                flaw == IF At(p, k4) = 0 THEN "overrun"
                        ELSE IF At(p, k4) # 125 THEN "unclosed" ELSE ""
            IN IF lo > NREPS \/ hi > NREPS \/ (hi >= 0 /\ lo > hi) THEN <<Null, k4 + 1, flaw>>   \* rejected
               ELSE <<[n EXCEPT !.lo = lo, !.hi = hi], k4 + 1, flaw>>

Rank(f) == CASE f = "hang" -> 4 [] f = "overrun" -> 3 [] f = "inverted" -> 2 [] f = "unclosed" -> 1 [] OTHER -> 0
Worse(f1, f2) == IF Rank(f1) >= Rank(f2) THEN f1 ELSE f2

RECURSIVE PParse(_, _), PSeq(_, _), PAtom(_, _), PGrp(_, _)
PGrp(p, k) ==       \* At(p, k) = "("
    IF At(p, k + 1) = 41 THEN <<Node("grp", Null, Null), k + 2, "">>
    ELSE LET r == PParse(p, k + 1) IN
         IF r[1] = Null THEN <<Null, r[2], r[3]>>
         ELSE IF At(p, r[2]) # 41 THEN <<Null, r[2], r[3]>>
         ELSE <<Node("grp", r[1], Null), r[2] + 1, r[3]>>
PAtom(p, k) ==
    IF At(p, k) = 0 \/ At(p, k) = 124 \/ At(p, k) = 41 THEN <<Null, k, "">>
    ELSE LET r == IF At(p, k) = 40 THEN PGrp(p, k) ELSE ReadAtom(p, k) IN
         IF r[1] = Null THEN r
         ELSE LET q == Quantify(p, r[1], r[2]) IN <<q[1], q[2], Worse(r[3], q[3])>>
PSeq(p, k) ==
    LET r1 == PAtom(p, k) IN
    IF r1[1] = Null \/ r1[3] \in {"hang", "overrun"} THEN r1
    ELSE LET r2 == PSeq(p, r1[2]) IN
         IF r2[1] = Null THEN <<r1[1], r2[2], Worse(r1[3], r2[3])>>
         ELSE <<Node("cat", r1[1], r2[1]), r2[2], Worse(r1[3], r2[3])>>
PParse(p, k) ==
    LET r1 == PSeq(p, k) IN
    IF At(p, r1[2]) # 124 \/ r1[3] \in {"hang", "overrun"} THEN r1
    ELSE LET r2 == PParse(p, r1[2] + 1) IN
         IF r2[1] = Null THEN <<r1[1], r2[2], Worse(r1[3], r2[3])>>
         ELSE <<Node("alt", r1[1], r2[1]), r2[2], Worse(r1[3], r2[3])>>

(* rnode_grpnum: groups numbered in pre-order from num; returns <<node, count>> *)
RECURSIVE GrpNum(_, _)
GrpNum(n, num) ==
    IF n = Null THEN <<Null, 0>>
    ELSE LET own == IF n.t = "grp" THEN 1 ELSE 0
             ra  == GrpNum(n.a, num + own)
             rb  == GrpNum(n.b, num + own + ra[2])
         IN <<[n EXCEPT !.g = IF own = 1 THEN num ELSE 0, !.a = ra[1], !.b = rb[1]], own + ra[2] + rb[2]>>

(* regcomp(): ok iff a tree came back; clean iff the whole string was consumed without a flaw *)
ParseRe(p) ==
    LET r == PParse(p, 1)
        g == GrpNum(r[1], 1)
    IN [ok    |-> r[1] # Null /\ r[3] \notin {"hang", "overrun"},
        flaw  |-> r[3],
        clean |-> r[1] # Null /\ r[3] = "" /\ r[2] = Len(p) + 1,
        node  |-> g[1], ngrp |-> g[2], stop |-> r[2]]

(***************************************************************************)
(* regcomp's size estimate (rnode_count) and the emitter (rnode_emit).      *)
(***************************************************************************)
RECURSIVE CountEst(_)
CountEst(n) ==
    IF n = Null THEN 0
    ELSE LET base == IF n.t = "cat" THEN CountEst(n.a) + CountEst(n.b)
                     ELSE IF n.t = "alt" THEN CountEst(n.a) + CountEst(n.b) + 2
                     ELSE IF n.t = "grp" THEN CountEst(n.a) + 2
                     ELSE 1
         IN IF n.lo = 0 /\ n.hi = 0 THEN 0
            ELSE IF n.lo = 1 /\ n.hi = 1 THEN base
            ELSE (IF n.hi < 0 THEN (n.lo + 1) * base + 1
                  ELSE (n.lo + n.hi) * base + n.hi - n.lo) + (IF n.lo = 0 THEN 1 ELSE 0)

RECURSIVE EmitLen(_)
EmitLen(n) ==
    IF n = Null THEN 0
    ELSE LET one == IF n.t = "cat" THEN EmitLen(n.a) + EmitLen(n.b)
                    ELSE IF n.t = "alt" THEN EmitLen(n.a) + EmitLen(n.b) + 2
                    ELSE IF n.t = "grp" THEN EmitLen(n.a) + 2
                    ELSE 1
             m   == Max2(1, n.lo)
         IN IF n.lo = 0 /\ n.hi = 0 THEN 0
            ELSE IF n.lo = 1 /\ n.hi = 1 THEN one
            ELSE (IF n.lo = 0 THEN 1 ELSE 0) + m * one + (IF n.hi < 0 THEN 1 ELSE 0)
                 + (IF n.hi > m THEN (n.hi - m) * (1 + one) ELSE 0)
Fits(n) == EmitLen(n) <= CountEst(n)

RECURSIVE WellFormed(_)
WellFormed(n) == n = Null \/ (/\ (n.hi < 0 \/ n.lo <= n.hi) /\ WellFormed(n.a) /\ WellFormed(n.b))

(***************************************************************************)
(* Matching.  cx = [s: line, ic, nb, ne: flags, nl: REG_NEWLINE].           *)
(***************************************************************************)
BrkClasses ==   \* name (code points, with the leading colon) -> class body
    << << <<58,97,108,110,117,109,58>>, <<97,45,122,65,45,90,48,45,57>> >>,             \* :alnum:
       << <<58,97,108,112,104,97,58>>, <<97,45,122,65,45,90>> >>,                        \* :alpha:
       << <<58,98,108,97,110,107,58>>, <<32,9>> >>,                                      \* :blank:
       << <<58,100,105,103,105,116,58>>, <<48,45,57>> >>,                                \* :digit:
       << <<58,108,111,119,101,114,58>>, <<97,45,122>> >>,                               \* :lower:
       << <<58,112,114,105,110,116,58>>, <<32,45,126>> >>,                               \* :print:
       << <<58,112,117,110,99,116,58>>,
          <<93,91,33,34,35,36,37,38,39,40,41,42,43,44,46,47,58,59,60,61,62,63,64,92,94,95,96,123,124,125,126,45>> >>,
       << <<58,115,112,97,99,101,58>>, <<32,9,13,10,11,12>> >>,                          \* :space:
       << <<58,117,112,112,101,114,58>>, <<65,45,90>> >>,                                \* :upper:
       << <<58,119,111,114,100,58>>, <<97,45,122,65,45,90,48,45,57,95>> >>,              \* :word:
       << <<58,120,100,105,103,105,116,58>>, <<97,45,102,65,45,70,48,45,57>> >> >>       \* :xdigit:

IsPrefixAt(pre, b, k) == \A i \in 1..Len(pre) : At(b, k + i - 1) = pre[i]

(* brk_match(): TRUE iff the bracket body b (text after "[") accepts c *)
RECURSIVE BrkIn(_, _, _)
BrkIn(b, c0, ic) ==
    LET not == At(b, 1) = 94
        p0  == IF not THEN 2 ELSE 1
        c   == IF ic THEN Fold(c0) ELSE c0
        RECURSIVE Scan(_)
        Scan(p) ==   \* TRUE iff some item from p on lists c
            IF At(b, p) = 0 \/ (p # p0 /\ At(b, p) = 93) THEN FALSE
            ELSE IF At(b, p) = 91 /\ At(b, p + 1) = 58
            THEN (\E i \in 1..Len(BrkClasses) :
                     IsPrefixAt(BrkClasses[i][1], b, p + 1) /\ BrkIn(BrkClasses[i][2], c, ic))
                 \/ Scan(p + BrkLen(b, p))
            ELSE LET beg == At(b, p)
                     rng == At(b, p + 1) = 45 /\ At(b, p + 2) # 0 /\ At(b, p + 2) # 93
                     end == IF rng THEN At(b, p + 2) ELSE beg
                     nxt == IF rng THEN p + 3 ELSE p + 1
                     fb  == IF ic THEN Fold(beg) ELSE beg
                     fe  == IF ic THEN Fold(end) ELSE end
                 IN (c >= fb /\ c <= fe) \/ Scan(nxt)
    IN Scan(p0) # not

(* one atom at position i: the set of positions it can end at (at most one) *)
AtomEnd(n, i, cx) ==
    LET s == cx.s
        c == At(s, i)
        prev == At(s, i - 1)
    IN CASE n.t = "chr" ->
              IF \A k \in 1..Len(n.s) :
                    IF cx.ic THEN Fold(At(s, i + k - 1)) = Fold(n.s[k]) ELSE At(s, i + k - 1) = n.s[k]
              THEN {i + Len(n.s)} ELSE {}
         [] n.t = "any" -> IF c = 0 \/ (c = NL /\ cx.nl) THEN {} ELSE {i + 1}
         [] n.t = "brk" -> IF c = 0 \/ (c = NL /\ cx.nl /\ At(n.s, 1) = 94) THEN {}
                           ELSE IF BrkIn(n.s, c, cx.ic) THEN {i + 1} ELSE {}
         [] n.t = "beg" -> IF i = 1 THEN (IF cx.nb THEN {} ELSE {i})
                           ELSE IF prev = NL /\ cx.nl /\ c # 0 THEN {i} ELSE {}   \* not after the final newline
         [] n.t = "end" -> IF c = 0 THEN (IF cx.ne THEN {} ELSE {i})
                           ELSE IF c = NL /\ cx.nl THEN {i} ELSE {}
         [] n.t = "wbeg" -> IF (i = 1 \/ ~IsWordCp(prev)) /\ IsWordCp(c) THEN {i} ELSE {}
         [] n.t = "wend" -> IF i # 1 /\ IsWordCp(prev) /\ (c = 0 \/ ~IsWordCp(c)) THEN {i} ELSE {}

IsAtom(n) == n.t \in {"chr", "any", "brk", "beg", "end", "wbeg", "wend"}
SetCap(c, g, so, eo) == IF g >= 1 /\ g < NGRPS /\ g <= Len(c) THEN [c EXCEPT ![g] = <<so, eo>>] ELSE c

(* all parses of node n from position i with captures c, in the engine's order of preference;
   each element is <<end position, captures>> *)
RECURSIVE M(_, _, _, _), M1(_, _, _, _), MCopies(_, _, _, _, _), MLoop(_, _, _, _), MOpt(_, _, _, _, _)
M1(n, i, c, cx) ==
    IF IsAtom(n) THEN [k \in 1..Cardinality(AtomEnd(n, i, cx)) |-> <<CHOOSE j \in AtomEnd(n, i, cx) : TRUE, c>>]
    ELSE IF n.t = "alt" THEN M(n.a, i, c, cx) \o M(n.b, i, c, cx)
    ELSE IF n.t = "cat" THEN LET ra == M(n.a, i, c, cx) IN
                             ConcatAll([k \in 1..Len(ra) |-> M(n.b, ra[k][1], ra[k][2], cx)])
    ELSE LET ra == M(n.a, i, c, cx) IN      \* grp
         [k \in 1..Len(ra) |-> <<ra[k][1], SetCap(ra[k][2], n.g, i - 1, ra[k][1] - 1)>>]
(* after the mandatory copies of an unbounded repetition: "X fork(X again, leave)" *)
MLoop(n, i, c, cx) ==
    LET r == M1(n, i, c, cx) IN
    ConcatAll([k \in 1..Len(r) |->
                 IF r[k][1] > i THEN MLoop(n, r[k][1], r[k][2], cx) \o << r[k] >>
                 ELSE << r[k] >>])          \* empty iteration: the engine recurses until NDEPT cuts it
(* left optional copies of a bounded repetition: "fork(X ..., END)" nested *)
MOpt(n, left, i, c, cx) ==
    IF left = 0 THEN << <<i, c>> >>
    ELSE LET r == M1(n, i, c, cx) IN
         ConcatAll([k \in 1..Len(r) |-> MOpt(n, left - 1, r[k][1], r[k][2], cx)]) \o << <<i, c>> >>
(* k mandatory copies, the last one followed by the loop / the optional copies *)
MCopies(n, k, i, c, cx) ==
    IF k = 1 /\ n.hi < 0 THEN MLoop(n, i, c, cx)
    ELSE LET r == M1(n, i, c, cx) IN
         IF k = 1 THEN ConcatAll([j \in 1..Len(r) |->
                          MOpt(n, IF n.hi > Max2(1, n.lo) THEN n.hi - Max2(1, n.lo) ELSE 0, r[j][1], r[j][2], cx)])
         ELSE ConcatAll([j \in 1..Len(r) |-> MCopies(n, k - 1, r[j][1], r[j][2], cx)])
M(n, i, c, cx) ==
    IF n = Null THEN << <<i, c>> >>
    ELSE IF n.lo = 0 /\ n.hi = 0 THEN << <<i, c>> >>
    ELSE IF n.lo = 1 /\ n.hi = 1 THEN M1(n, i, c, cx)
    ELSE MCopies(n, Max2(1, n.lo), i, c, cx) \o (IF n.lo = 0 THEN << <<i, c>> >> ELSE <<>>)

NoCaps(ng) == [g \in 1..ng |-> <<-1, -1>>]

(* regexec(): first start position (in order) with any parse; its most preferred parse.
   Result: <<>> or <<so, eo, caps>> with 0-based offsets *)
RECURSIVE SearchFrom(_, _, _, _)
SearchFrom(n, ng, i, cx) ==
    IF i > Len(cx.s) + 1 THEN <<>>
    ELSE LET r == M(n, i, NoCaps(ng), cx) IN
         IF r # <<>> THEN <<i - 1, r[1][1] - 1, r[1][2]>> ELSE SearchFrom(n, ng, i + 1, cx)
Search(n, ng, cx) == IF cx.s = <<>> THEN <<>> ELSE SearchFrom(n, ng, 1, cx)

(***************************************************************************)
(* Declarative membership: Ends(n, i) = set of positions where some match   *)
(* of n starting at i can end (no order, no captures).                      *)
(***************************************************************************)
RECURSIVE Ends(_, _, _), Ends1(_, _, _), Closure(_, _, _), Power(_, _, _, _)
Ends1(n, i, cx) ==
    IF IsAtom(n) THEN AtomEnd(n, i, cx)
    ELSE IF n.t = "alt" THEN Ends(n.a, i, cx) \cup Ends(n.b, i, cx)
    ELSE IF n.t = "cat" THEN UNION {Ends(n.b, j, cx) : j \in Ends(n.a, i, cx)}
    ELSE Ends(n.a, i, cx)
Power(n, k, S, cx) == IF k = 0 THEN S ELSE Power(n, k - 1, UNION {Ends1(n, j, cx) : j \in S}, cx)
Closure(n, S, cx) == LET T == S \cup UNION {Ends1(n, j, cx) : j \in S} IN IF T = S THEN S ELSE Closure(n, T, cx)
Ends(n, i, cx) ==
    IF n = Null THEN {i}
    ELSE IF n.lo = 0 /\ n.hi = 0 THEN {i}
    ELSE LET m    == Max2(1, n.lo)
             must == Power(n, m, {i}, cx)
             more == IF n.hi < 0 THEN Closure(n, must, cx)
                     ELSE UNION {Power(n, k, must, cx) : k \in 0..(IF n.hi > m THEN n.hi - m ELSE 0)}
         IN more \cup (IF n.lo = 0 THEN {i} ELSE {})
Matches(n, so, eo, cx) == (eo + 1) \in Ends(n, so + 1, cx)
HasMatchAt(n, i, cx) == Ends(n, i, cx) # {}
LeftmostStart(n, cx) == IF cx.s = <<>> \/ \A i \in 1..Len(cx.s) + 1 : ~HasMatchAt(n, i, cx) THEN -1
                        ELSE (CHOOSE i \in 1..Len(cx.s) + 1 : HasMatchAt(n, i, cx) /\
                                 \A j \in 1..i - 1 : ~HasMatchAt(n, j, cx)) - 1

(* does an unbounded repetition of n, or n itself, accept the empty string somewhere: such
   patterns make the engine recurse to its depth limit *)
RECURSIVE NullableLoop(_, _)
NullableLoop(n, cx) ==
    n # Null /\ (\/ (n.hi < 0 /\ \E i \in 1..Len(cx.s) + 1 : i \in Ends1(n, i, cx))
                 \/ NullableLoop(n.a, cx) \/ NullableLoop(n.b, cx))

(***************************************************************************)
(* Pattern sets (rset.c).                                                   *)
(***************************************************************************)
(* re_groupcount() *)
RECURSIVE GroupCount(_, _, _, _)
GroupCount(p, k, brk, brk2) ==
    IF At(p, k) = 0 THEN 0
    ELSE IF ~brk THEN
        LET add == IF At(p, k) = 40 THEN 1 ELSE 0 IN
        IF At(p, k) = 92 /\ At(p, k + 1) # 0 THEN add + GroupCount(p, k + 2, FALSE, 0)
        ELSE IF At(p, k) = 91 /\ At(p, k + 1) # 0 /\ At(p, k + 2) # 0
             THEN add + GroupCount(p, k + (IF At(p, k + 1) = 94 THEN 2 ELSE 1) + 1, TRUE, 0)
        ELSE add + GroupCount(p, k + 1, FALSE, 0)
    ELSE IF brk2 = 0 THEN
        IF At(p, k) = 91 /\ At(p, k + 1) \in {58, 42, 61}
        THEN GroupCount(p, k + 2, At(p, k) # 93, At(p, k + 1))
        ELSE GroupCount(p, k + 1, At(p, k) # 93, 0)
    ELSE IF At(p, k) = brk2 /\ At(p, k + 1) = 93 THEN GroupCount(p, k + 2, TRUE, 0)
    ELSE GroupCount(p, k + 1, TRUE, brk2)

(* the combined pattern text rset_make() compiles for the member patterns ps *)
RECURSIVE Members(_, _)
Members(ps, k) == IF k > Len(ps) THEN <<>>
                  ELSE (IF k > 1 THEN <<124>> ELSE <<>>) \o <<40>> \o ps[k] \o <<41>> \o Members(ps, k + 1)
WrapSet(ps) == <<40>> \o Members(ps, 1) \o <<41>>

RECURSIVE SetGrp(_, _)
SetGrp(ps, k) == IF k = 1 THEN 2 ELSE SetGrp(ps, k - 1) + 1 + GroupCount(ps[k - 1], 1, FALSE, 0)

(* rset_find(): <<>> or <<set index (0-based), groups of that member as <<so, eo>> (n of them)>> *)
SetFind(ps, n, cx) ==
    LET pr   == ParseRe(WrapSet(ps))
        tot  == SetGrp(ps, Len(ps) + 1) - 1     \* number of groups in the combined pattern
        r    == Search(pr.node, Max2(tot, pr.ngrp), cx)
    IN IF ~pr.ok \/ r = <<>> THEN <<>>
       ELSE LET caps == r[3]
                hit  == {k \in 1..Len(ps) : caps[SetGrp(ps, k)][1] >= 0}
            IN IF hit = {} THEN <<>>
               ELSE LET k  == CHOOSE x \in hit : \A y \in hit : y <= x
                        g0 == SetGrp(ps, k)
                        gc == GroupCount(ps[k], 1, FALSE, 0)
                    IN <<k - 1, [j \in 1..n |-> IF j - 1 < gc + 1 THEN caps[g0 + j - 1] ELSE <<-1, -1>>]>>

(***************************************************************************)
(* The literal fast path (rstr.c).                                          *)
(***************************************************************************)
SimpleStops == {92, 46, 42, 43, 63, 91, 93, 123, 125, 40, 41, 36, 124, 94}     \* \.*+?[]{}()$|^
RECURSIVE RunEnd(_, _)
RunEnd(p, k) == IF At(p, k) = 0 \/ At(p, k) \in SimpleStops THEN k ELSE RunEnd(p, k + 1)

(* rstr_simple(): [simple, lbeg, wbeg, str, wend, lend] *)
Simple(p) ==
    LET lbeg == At(p, 1) = 94
        k1   == IF lbeg THEN 2 ELSE 1
        wbeg == At(p, k1) = 92 /\ At(p, k1 + 1) = 60
        k2   == IF wbeg THEN k1 + 2 ELSE k1
        k3   == RunEnd(p, k2)
        wend == At(p, k3) = 92 /\ At(p, k3 + 1) = 62
        k4   == IF wend THEN k3 + 2 ELSE k3
        lend == At(p, k4) = 36
        k5   == IF lend THEN k4 + 1 ELSE k4
    IN [simple |-> At(p, k5) = 0, lbeg |-> lbeg, wbeg |-> wbeg, str |-> SubSeq(p, k2, k3 - 1),
        wend |-> wend, lend |-> lend]

(* every regular-expression operator: a pattern containing one must not be "simple".
   (an anchor in its canonical place is part of the literal form, not an operator) *)
RECURSIVE HasOperator(_, _)
HasOperator(p, k) ==
    IF At(p, k) = 0 THEN FALSE
    ELSE IF At(p, k) = 92 THEN HasOperator(p, k + 2)
    ELSE At(p, k) \in {46, 42, 43, 63, 91, 123, 40, 41, 124} \/ HasOperator(p, k + 1)

(* rstr_find() on a simple pattern, over code points; s ends with NL.  <<>> or <<so, eo>> *)
SimpleFind(sp, s, ic, nb, ne) ==
    LET len == Len(sp.str)
        n   == Len(s)
        endp == n - len            \* last candidate position (1-based): before the final character
        begp == IF sp.lend THEN endp ELSE 1
        lastp == IF sp.lbeg THEN 1 ELSE endp
        Eq(a, b) == IF ic THEN Fold(a) = Fold(b) ELSE a = b
        Ok(r) == /\ ~(sp.wbeg /\ ((r > 1 /\ IsWordCp(s[r - 1])) \/ ~IsWordCp(At(s, r))))
                 /\ ~(sp.wend /\ At(s, r + len) # 0 /\
                        (r + len = 1 \/ ~IsWordCp(At(s, r + len - 1)) \/ IsWordCp(At(s, r + len))))
                 /\ \A k \in 1..len : Eq(At(s, r + k - 1), sp.str[k])
        cands == {r \in begp..lastp : r >= 1 /\ Ok(r)}
    IN IF (sp.lbeg /\ nb) \/ endp < 1 \/ cands = {} THEN <<>>
       ELSE LET r == CHOOSE x \in cands : \A y \in cands : x <= y IN <<r - 1, r - 1 + len>>
=============================================================================
