------------------------------- MODULE ExParse -------------------------------
(***************************************************************************)
(* The ex command-line splitter (ex.c: ex_exec, ex_loc, ex_cmd, ex_arg,     *)
(* ex_txt) at the level of indices into the command string.                 *)
(*                                                                           *)
(* A command line is a sequence of bytes; the C string has one more          *)
(* position, the terminating NUL, which may be read but not stepped over:   *)
(* At(s, i) is the character at 1-based position i, 0 at Len(s) + 1 and     *)
(* OOB beyond that.  Every loop of the C code is one recursive operator     *)
(* over a cursor record [i, out, bad]: i the read position, out what was    *)
(* copied so far, bad = TRUE as soon as a position beyond the terminator    *)
(* was read.  Safe(s): no read beyond the terminator, every output shorter  *)
(* than the line (so it fits the EXLEN buffers whenever the line passed the *)
(* length check), and the splitter makes progress on every command.         *)
(***************************************************************************)
EXTENDS Naturals, Integers, Sequences, FiniteSets, TLC

EXLEN == 512
OOB == -1
At(s, i) == IF i <= Len(s) THEN s[i] ELSE IF i = Len(s) + 1 THEN 0 ELSE OOB

NL == 10  TAB == 9  SP == 32  BANG == 33  DQ == 34  PCT == 37  AMP == 38  SQ == 39
PLUS == 43  COMMA == 44  MINUS == 45  DOT == 46  SLASH == 47  COLON == 58  SEMI == 59  EQ == 61
QM == 63  ATS == 64  BSL == 92  BAR == 124  TILDE == 126  DOLLAR == 36
IsDigit(c) == c >= 48 /\ c <= 57
IsAlpha(c) == (c >= 65 /\ c <= 90) \/ (c >= 97 /\ c <= 122)
LocChar(c) == c \in {DOT, DOLLAR, SQ, SLASH, QM, PLUS, MINUS, COMMA, SEMI, PCT} \/ IsDigit(c)

Cur(i) == [i |-> i, out |-> <<>>, bad |-> FALSE]
\* read position p.i (+ k): marks the cursor bad if beyond the terminator
Rd(s, p, k) == At(s, p.i + k)
Chk(s, p, k) == IF At(s, p.i + k) = OOB THEN [p EXCEPT !.bad = TRUE] ELSE p
Copy(s, p) == [Chk(s, p, 0) EXCEPT !.out = p.out \o <<Rd(s, p, 0)>>, !.i = p.i + 1]      \* *dst++ = *src++
Skip(s, p) == [Chk(s, p, 0) EXCEPT !.i = p.i + 1]                                          \* src++
\* if (*src == '\\' && src[1]) *dst++ = *src++;  *dst++ = *src++;
CopyEsc(s, p) == LET q == IF Rd(s, p, 0) = BSL /\ Rd(s, Chk(s, p, 1), 1) # 0 THEN Copy(s, p) ELSE p IN Copy(s, q)

RECURSIVE SkipBlank(_, _, _)
SkipBlank(s, p, set) == IF ~p.bad /\ Rd(s, p, 0) \in set THEN SkipBlank(s, Skip(s, p), set) ELSE Chk(s, p, 0)

\* while (*src && *src != d) { copy with escapes }
RECURSIVE Until(_, _, _)
Until(s, p, stop) == IF p.bad \/ Rd(s, p, 0) = 0 \/ Rd(s, p, 0) = OOB \/ Rd(s, p, 0) \in stop THEN Chk(s, p, 0) ELSE Until(s, CopyEsc(s, p), stop)

\* ---- ex_loc -------------------------------------------------------------
LocOne(s, p0) ==
    LET p1 == IF Rd(s, p0, 0) = SQ THEN Copy(s, p0) ELSE p0
        p2 == IF Rd(s, p1, 0) \in {SLASH, QM} THEN Until(s, Copy(s, p1), {Rd(s, p1, 0)}) ELSE p1
    IN  IF Rd(s, p2, 0) # 0 /\ Rd(s, p2, 0) # OOB THEN Copy(s, p2) ELSE Chk(s, p2, 0)
RECURSIVE LocLoop(_, _)
LocLoop(s, p) == IF ~p.bad /\ Rd(s, p, 0) # 0 /\ Rd(s, p, 0) # OOB /\ LocChar(Rd(s, p, 0)) THEN LocLoop(s, LocOne(s, p)) ELSE Chk(s, p, 0)
ExLoc(s, i) == LocLoop(s, SkipBlank(s, Cur(i), {COLON, SP, TAB}))

\* ---- ex_cmd -------------------------------------------------------------
RECURSIVE CmdLoop(_, _)
CmdLoop(s, p) ==
    IF ~p.bad /\ IsAlpha(Rd(s, p, 0)) /\ Len(p.out) < 16
    THEN LET q == Copy(s, p) IN IF Rd(s, p, 0) = 107 /\ Len(q.out) = 1 THEN q ELSE CmdLoop(s, q)      \* 'k' as first letter ends the name
    ELSE Chk(s, p, 0)
ExCmd(s, i) == LET p == CmdLoop(s, SkipBlank(s, Cur(i), {SP, TAB})) IN
               IF Rd(s, p, 0) \in {BANG, EQ, ATS} THEN Copy(s, p) ELSE p

\* ---- the command table: name -> abbreviation ---------------------------
Abbrs == { <<97>>, <<98>>, <<100>>, <<99>>, <<99,109>>, <<99,109,33>>, <<101>>, <<101,33>>, <<101,99>>, <<101,119>>, <<101,119,33>>, <<102,116>>,
           <<103>>, <<103,33>>, <<105>>, <<107>>, <<109,97,107,101>>, <<110>>, <<112>>, <<112,111>>, <<112,117>>, <<112,114,101,118>>, <<113>>, <<113,33>>,
           <<114>>, <<114,101,100,111>>, <<114,115>>, <<114,120>>, <<114,97>>, <<114,107>>, <<115,101>>, <<115>>, <<115,111>>, <<116,97>>, <<116,110>>,
           <<116,112>>, <<116,102>>, <<117>>, <<118>>, <<119>>, <<119,33>>, <<119,113>>, <<119,113,33>>, <<120>>, <<120,33>>, <<120,97>>, <<120,97,33>>,
           <<121>>, <<33>>, <<64>>, <<61>>, <<>> }
Names == ( <<97,112,112,101,110,100>> :> <<97>> ) @@ ( <<98,117,102,102,101,114>> :> <<98>> ) @@ ( <<100,101,108,101,116,101>> :> <<100>> ) @@
         ( <<99,104,97,110,103,101>> :> <<99>> ) @@ ( <<99,109,97,112>> :> <<99,109>> ) @@ ( <<99,109,97,112,33>> :> <<99,109,33>> ) @@
         ( <<101,100,105,116>> :> <<101>> ) @@ ( <<101,100,105,116,33>> :> <<101,33>> ) @@ ( <<101,99,104,111>> :> <<101,99>> ) @@
         ( <<102,105,108,101,116,121,112,101>> :> <<102,116>> ) @@ ( <<103,108,111,98,97,108>> :> <<103>> ) @@ ( <<103,108,111,98,97,108,33>> :> <<103,33>> ) @@
         ( <<105,110,115,101,114,116>> :> <<105>> ) @@ ( <<109,97,114,107>> :> <<107>> ) @@ ( <<110,101,120,116>> :> <<110>> ) @@ ( <<112,114,105,110,116>> :> <<112>> ) @@
         ( <<112,111,112>> :> <<112,111>> ) @@ ( <<112,117,116>> :> <<112,117>> ) @@ ( <<113,117,105,116>> :> <<113>> ) @@ ( <<113,117,105,116,33>> :> <<113,33>> ) @@
         ( <<114,101,97,100>> :> <<114>> ) @@ ( <<115,101,116>> :> <<115,101>> ) @@ ( <<115,117,98,115,116,105,116,117,116,101>> :> <<115>> ) @@
         ( <<115,111,117,114,99,101>> :> <<115,111>> ) @@ ( <<116,97,103>> :> <<116,97>> ) @@ ( <<116,110,101,120,116>> :> <<116,110>> ) @@
         ( <<116,112,114,101,118>> :> <<116,112>> ) @@ ( <<116,102,114,101,101>> :> <<116,102>> ) @@ ( <<117,110,100,111>> :> <<117>> ) @@
         ( <<118,103,108,111,98,97,108>> :> <<118>> ) @@ ( <<119,114,105,116,101>> :> <<119>> ) @@ ( <<119,114,105,116,101,33>> :> <<119,33>> ) @@
         ( <<120,105,116>> :> <<120>> ) @@ ( <<120,105,116,33>> :> <<120,33>> ) @@ ( <<121,97,110,107>> :> <<121>> )
Unknown == <<117,110,107,110,111,119,110>>
AbbrOf(cmd) == IF cmd \in Abbrs THEN cmd ELSE IF cmd \in DOMAIN Names THEN Names[cmd] ELSE Unknown
Known(cmd) == cmd \in Abbrs \/ cmd \in DOMAIN Names

\* ---- ex_arg -------------------------------------------------------------
\* while (*src && *src != '\n') src++;
RECURSIVE SkipTo(_, _)
SkipTo(s, p) == IF p.bad \/ Rd(s, p, 0) \in {0, OOB, NL} THEN Chk(s, p, 0) ELSE SkipTo(s, Skip(s, p))
RECURSIVE SubLoop(_, _, _, _)
SubLoop(s, p, delim, cnt) ==      \* while (*src && *src != '\n' && cnt > 0)
    IF p.bad \/ Rd(s, p, 0) = 0 \/ Rd(s, p, 0) = OOB \/ Rd(s, p, 0) = NL \/ cnt = 0 THEN Chk(s, p, 0)
    ELSE SubLoop(s, CopyEsc(s, p), delim, IF Rd(s, p, 0) = delim THEN cnt - 1 ELSE cnt)
ExArg(s, i, ab) ==
    LET c0 == IF ab = <<>> THEN 0 ELSE ab[1]
        c1 == IF Len(ab) >= 2 THEN ab[2] ELSE 0
        p0 == SkipBlank(s, Cur(i), {SP, TAB})
        p1 == IF c0 \in {BANG, 103, 118} \/ (c0 \in {114, 119} /\ c1 = 0 /\ Rd(s, p0, 0) = BANG)
              THEN Until(s, p0, {NL})
              ELSE IF (c0 = 115 /\ c1 # 101) \/ c0 = AMP \/ c0 = TILDE
                   THEN LET delim == Rd(s, p0, 0) IN
                        IF delim \notin {0, NL, BAR, BSL, DQ} THEN SubLoop(s, Copy(s, p0), delim, 2) ELSE p0
                   ELSE p0
        p2 == Until(s, p1, {NL, BAR, DQ})
        p3 == IF Rd(s, p2, 0) = DQ THEN [SkipTo(s, p2) EXCEPT !.out = p2.out] ELSE p2
    IN  IF Rd(s, p3, 0) \in {NL, BAR} THEN Skip(s, p3) ELSE p3

\* ---- ex_txt (input lines of a / i / c come from the terminal: none here) ----
RECURSIVE RsEnd(_, _)
RsEnd(s, i) == IF At(s, i) = 0 \/ (At(s, i) = NL /\ At(s, i + 1) = DOT /\ At(s, i + 2) = NL) THEN i ELSE RsEnd(s, i + 1)
ExTxt(s, i, ab) ==
    IF ab = <<114, 115>> /\ At(s, i) # 0
    THEN LET e == RsEnd(s, i) IN [i |-> IF At(s, e) # 0 THEN e + 3 ELSE e, txt |-> <<SubSeq(s, i, e - 1) \o <<NL>>>>]
    ELSE IF ab = <<114, 115>> \/ ab \in {<<105>>, <<97>>, <<99>>} THEN [i |-> i, txt |-> << <<>> >>]
    ELSE [i |-> i, txt |-> <<>>]         \* <<>>: NULL

\* ---- ex_exec ------------------------------------------------------------
RECURSIVE Exec(_, _, _, _)
Exec(s, i, acc, fuel) ==
    IF At(s, i) = 0 THEN [cmds |-> acc, bad |-> FALSE, stuck |-> FALSE]
    ELSE IF At(s, i) = OOB THEN [cmds |-> acc, bad |-> TRUE, stuck |-> FALSE]
    ELSE IF fuel = 0 THEN [cmds |-> acc, bad |-> FALSE, stuck |-> TRUE]
    ELSE LET l == ExLoc(s, i)
             c == ExCmd(s, l.i)
             ab == AbbrOf(c.out)
             a == ExArg(s, c.i, ab)
             t == ExTxt(s, a.i, ab)
             one == [loc |-> l.out, cmd |-> c.out, arg |-> a.out, txt |-> t.txt, known |-> Known(c.out)]
         IN  IF l.bad \/ c.bad \/ a.bad THEN [cmds |-> Append(acc, one), bad |-> TRUE, stuck |-> FALSE]
             ELSE IF t.i <= i THEN [cmds |-> Append(acc, one), bad |-> FALSE, stuck |-> TRUE]
             ELSE Exec(s, t.i, Append(acc, one), fuel - 1)
Parse(s) == IF Len(s) >= EXLEN THEN [cmds |-> <<>>, bad |-> FALSE, stuck |-> FALSE, toolong |-> TRUE]
            ELSE Exec(s, 1, <<>>, Len(s) + 2) @@ [toolong |-> FALSE]
\* the safety property of the splitter
Safe(s) == LET r == Parse(s) IN
           /\ ~r.bad /\ ~r.stuck
           /\ \A k \in 1..Len(r.cmds) : Len(r.cmds[k].loc) <= Len(s) /\ Len(r.cmds[k].cmd) <= Len(s) /\ Len(r.cmds[k].arg) <= Len(s)
=============================================================================
