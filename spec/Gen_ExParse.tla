---------------------------- MODULE Gen_ExParse ----------------------------
(* C05 case table of the ex command-line splitter: for every line of <= LMAX  *)
(* symbols over the alphabet (indices LO..HI-1 of the enumeration), or for    *)
(* the lines listed in IDXFILE, what ExParse says the splitter produces and   *)
(* whether the line is Safe.                                                  *)
EXTENDS ExParse, Json, IOUtils, SequencesExt
VARIABLE dummy
Env(k, d) == IF k \in DOMAIN IOEnv THEN IOEnv[k] ELSE d
EnvN(k, d) == IF k \in DOMAIN IOEnv THEN atoi(IOEnv[k]) ELSE d

\*           s        g        k        w        r        e        1       ,       /       \       |        sp      !       "       '       &       nl      e-acute       x
\* lines are byte strings: the last-but-one symbol is the two bytes of e-acute
Alpha == << <<115>>, <<103>>, <<107>>, <<119>>, <<114>>, <<101>>, <<49>>, <<44>>, <<47>>, <<92>>, <<124>>, <<32>>, <<33>>, <<34>>, <<39>>, <<38>>, <<10>>, <<195, 169>>, <<120>> >>
NA == Len(Alpha)
RECURSIVE StrOf(_)
StrOf(k) == IF k = 0 THEN <<>> ELSE StrOf((k - 1) \div NA) \o Alpha[((k - 1) % NA) + 1]

Case(s) == LET r == Parse(s) IN
           [s |-> s, cmds |-> r.cmds, bad |-> IF r.bad THEN 1 ELSE 0, stuck |-> IF r.stuck THEN 1 ELSE 0,
            toolong |-> IF r.toolong THEN 1 ELSE 0, safe |-> IF Safe(s) THEN 1 ELSE 0]
Mode == Env("MODE", "enum")
Lo == EnvN("LO", 0)
Hi == EnvN("HI", 10)
Table == IF Mode = "list" THEN LET L == ndJsonDeserialize(Env("IDXFILE", "")) IN [k \in 1..Len(L) |-> Case(L[k])]
         ELSE [k \in 1..(Hi - Lo) |-> Case(StrOf(Lo + k - 1))]
Init == dummy = 0 /\ ndJsonSerialize(Env("OUT", "/tmp/gen_exparse.ndjson"), Table)
Next == UNCHANGED dummy
Spec == Init /\ [][Next]_dummy
=============================================================================
