SPECIFICATION Spec
CONSTANTS NB = 2
          MaxSteps = 5
          Paths = {"f1", "f2"}
INVARIANT Inv
PROPERTY ActionProps
CHECK_DEADLOCK FALSE
VIEW View
