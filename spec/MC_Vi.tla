-------------------------------- MODULE MC_Vi --------------------------------
(***************************************************************************)
(* Exhaustive small-scope model of visual mode (C07, C08, C04 at design    *)
(* level): from a small buffer (Gen_Vi!ExhTexts[MCText]) every history of  *)
(* MaxSteps commands over Gen_Vi!ExhCmds.  TLC checks on every step:        *)
(*   CursorOK    the cursor is on an existing character of an existing     *)
(*               line, never on the terminator of a non-empty line (C07);  *)
(*   MotionPure  a motion never changes the text or the registers (C07);   *)
(*   FailStays   a motion that fails leaves the cursor where it was (C07); *)
(*   YankKeeps   a yank changes neither text nor the other registers; the  *)
(*               unnamed register then holds exactly the region (C08);     *)
(*   UndoBack    whatever a command changed is taken back by one u, and    *)
(*               brought back by ^R (C04);                                  *)
(*   Scalar      every character is a scalar value, no newline inside a    *)
(*               line (C16).                                                *)
(* The same commands are typed into the editor by the profile exh of       *)
(* Gen_Vi (harness/vidrive.py), which binds this model to the code.        *)
(***************************************************************************)
EXTENDS Gen_Vi
CONSTANTS MaxSteps, MCText
VARIABLES vs, steps, last

MCInit == dummy = 0 /\ vs = ViCmd(Start0, Ins(ExhTexts[MCText])) /\ steps = 0 /\ last = [k |-> "none"]
Norm(v, c0) == IF c0.k = "op" /\ c0.op = "c" /\ ~ViCmd(v, c0).ok THEN [c0 EXCEPT !.op = "d", !.keys = <<>>] ELSE c0
MCNext == /\ steps < MaxSteps
          /\ \E i \in 1..Len(ExhCmds) : LET c == Norm(vs, ExhCmds[i]) IN vs' = ViCmd(vs, c) /\ last' = c
          /\ steps' = steps + 1 /\ UNCHANGED dummy
MCSpec == MCInit /\ [][MCNext]_<<dummy, vs, steps, last>>
MCView == <<vs, steps>>

CursorOK == /\ vs.row >= 0 /\ (NR(vs) = 0 => vs.row = 0) /\ (NR(vs) > 0 => vs.row < NR(vs))
            /\ vs.off >= 0 /\ (NR(vs) > 0 => vs.off < Max2(1, Len(Lines(vs.ed)[vs.row + 1])))
Scalar == \A i \in 1..NR(vs) : \A j \in 1..Len(Lines(vs.ed)[i]) : Lines(vs.ed)[i][j] >= 1 /\ Lines(vs.ed)[i][j] < 1114112 /\ Lines(vs.ed)[i][j] # NL
Inv == CursorOK /\ Scalar /\ Lb!GhostMatches(vs.ed.lb)

C == last'
MotionPure == (C.k = "mot") => (Lines(vs'.ed) = Lines(vs.ed) /\ vs'.ed.regs = vs.ed.regs)
FailStays == (C.k = "mot" /\ ~vs'.ok) => (vs'.row = vs.row /\ vs'.off = vs.off)
YankKeeps == (C.k = "op" /\ C.op = "y" /\ vs'.ok) =>
                 (Lines(vs'.ed) = Lines(vs.ed) /\ vs'.ed.regs[0].has /\ \A r \in DOMAIN vs.ed.regs : r \in {0} \cup 49..57 \/ vs'.ed.regs[r] = vs.ed.regs[r])
UndoBack == (Lines(vs'.ed) # Lines(vs.ed) /\ C.k \notin {"u", "^R"}) =>
                 LET u == ViCmd(vs', [k |-> "u", c1 |-> 0, reg |-> 0]) IN
                 Lines(u.ed) = Lines(vs.ed) /\ Lines(ViCmd(u, [k |-> "^R", c1 |-> 0, reg |-> 0]).ed) = Lines(vs'.ed)
StepProps == [][MotionPure /\ FailStays /\ YankKeeps /\ UndoBack]_<<dummy, vs, steps, last>>
=============================================================================
