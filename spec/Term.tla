-------------------------------- MODULE Term --------------------------------
(***************************************************************************)
(* C19: a terminal as a state machine over a grid of cells, driven by the   *)
(* control functions neatvi emits (term.c), and Render: what a full repaint *)
(* of a window of the buffer looks like (led_render / vi_drawrow).          *)
(* A cell holds a code point; 32 is blank; -1 marks the second cell of a    *)
(* wide character.  Rows and columns are 0-based.                           *)
(***************************************************************************)
EXTENDS Layout

Blank(C) == [j \in 1..C |-> 32]
NewTerm(R, C) == [R |-> R, C |-> C, grid |-> [i \in 1..R |-> Blank(C)], r |-> 0, c |-> 0, top |-> 0, bot |-> R - 1, bad |-> ""]
Min2(a, b) == IF a < b THEN a ELSE b
Max2(a, b) == IF a < b THEN b ELSE a
TermWid(cp) == IF IsZw(cp) THEN 0 ELSE IF IsDw(cp) THEN 2 ELSE 1      \* what the terminal advances by

(* lines from..to (1-based, within the scroll region) move by n; vacated lines become blank *)
InsLines(t, n0) ==      \* IL at the cursor row
    LET r == t.r + 1  b == t.bot + 1  n == Min2(Max2(n0, 1), b - r + 1) IN
    IF t.r < t.top \/ t.r > t.bot THEN t
    ELSE [t EXCEPT !.grid = [i \in 1..t.R |-> IF i < r \/ i > b THEN t.grid[i] ELSE IF i < r + n THEN Blank(t.C) ELSE t.grid[i - n]], !.c = 0]
DelLines(t, n0) ==      \* DL at the cursor row
    LET r == t.r + 1  b == t.bot + 1  n == Min2(Max2(n0, 1), b - r + 1) IN
    IF t.r < t.top \/ t.r > t.bot THEN t
    ELSE [t EXCEPT !.grid = [i \in 1..t.R |-> IF i < r \/ i > b THEN t.grid[i] ELSE IF i + n <= b THEN t.grid[i + n] ELSE Blank(t.C)], !.c = 0]
ScrollUp(t) == [t EXCEPT !.grid = [i \in 1..t.R |-> IF i < t.top + 1 \/ i > t.bot + 1 THEN t.grid[i]
                                                     ELSE IF i < t.bot + 1 THEN t.grid[i + 1] ELSE Blank(t.C)]]
PutCell(t, cp) ==
    LET w == TermWid(cp) IN
    IF w = 0 THEN t
    ELSE IF t.c + w > t.C THEN [t EXCEPT !.bad = "print past the right margin"]
    ELSE [t EXCEPT !.grid[t.r + 1] = [j \in 1..t.C |-> IF j = t.c + 1 THEN cp ELSE IF w = 2 /\ j = t.c + 2 THEN -1 ELSE t.grid[t.r + 1][j]],
                   !.c = t.c + w]
RECURSIVE PutText(_, _)
PutText(t, cps) == IF cps = <<>> THEN t ELSE PutText(PutCell(t, Head(cps)), Tail(cps))

(* op = <<name, a, b>> or <<"text", cps>> *)
ApplyOp(t, op) ==
    LET k == op[1] IN
    CASE k = "text" -> PutText(t, op[2])
      [] k = "cup"  -> [t EXCEPT !.r = Min2(Max2(op[2], 0), t.R - 1), !.c = Min2(Max2(op[3], 0), t.C - 1)]
      [] k = "cr"   -> [t EXCEPT !.c = 0]
      [] k = "lf"   -> IF t.r = t.bot THEN ScrollUp(t) ELSE [t EXCEPT !.r = Min2(t.r + 1, t.R - 1)]
      [] k = "cuf"  -> [t EXCEPT !.c = Min2(Min2(t.c, t.C - 1) + Max2(op[2], 1), t.C - 1)]
      [] k = "cub"  -> [t EXCEPT !.c = Max2(Min2(t.c, t.C - 1) - Max2(op[2], 1), 0)]
      [] k = "el"   -> [t EXCEPT !.grid[t.r + 1] = [j \in 1..t.C |-> IF j >= t.c + 1 THEN 32 ELSE t.grid[t.r + 1][j]]]
      [] k = "il"   -> InsLines(t, op[2])
      [] k = "dl"   -> DelLines(t, op[2])
      [] k = "stbm" -> [t EXCEPT !.top = IF op[2] = 0 THEN 0 ELSE op[2] - 1, !.bot = IF op[3] = 0 THEN t.R - 1 ELSE Min2(op[3] - 1, t.R - 1), !.r = 0, !.c = 0]
      [] k = "sgr"  -> t
      [] OTHER      -> [t EXCEPT !.bad = "unknown control function"]
RECURSIVE ApplyOps(_, _)
ApplyOps(t, ops) == IF ops = <<>> THEN t ELSE ApplyOps(ApplyOp(t, Head(ops)), Tail(ops))

(* ---- what a repaint shows --------------------------------------------------------------------- *)
(* the cells of one line (with its newline) for columns left .. left+cols-1, left-to-right base direction *)
Glyph(c) == IF IsBell(c) THEN 65533 ELSE IF c = 9 \/ c = NL \/ (c < 32) \/ c = 127 THEN 32 ELSE c
RenderLine(line, left, cols) ==
    LET n == Len(line)
        p == Position(line, IF Reorders(line, 1, 256) THEN Reorder(line, Ctx(line, 0)) ELSE Ident(n))
        (* the character whose cells include column x, if it lies entirely inside the window *)
        Owner(x) == {i \in 1..n : p[i] <= x /\ x < p[i] + CWid(line[i], p[i])
                                   /\ p[i] >= left /\ p[i] + CWid(line[i], p[i]) - 1 < left + cols}
    IN [j \in 1..cols |->
          LET x == left + j - 1  o == Owner(x) IN
          IF o = {} THEN 32
          ELSE LET i == CHOOSE k \in o : TRUE  g == Glyph(line[i]) IN
               IF g = 32 THEN 32
               ELSE IF x = p[i] THEN g ELSE IF TermWid(g) = 2 THEN -1 ELSE 32]
(* row k (0-based) of a window showing lines from `top' *)
RenderRow(lines, top, k, left, cols) ==
    LET r == top + k IN
    IF r < Len(lines) THEN RenderLine(lines[r + 1] \o <<NL>>, left, cols)
    ELSE IF r = 0 THEN Blank(cols)
    ELSE [j \in 1..cols |-> IF j = 1 /\ left = 0 THEN 126 ELSE 32]           \* "~" past the end
(* the terminal cell the cursor must be on: the last cell of the character that commands act on *)
CursorCell(line, xcol, left) ==
    LET l == line \o <<NL>>
        p == Position(l, IF Reorders(l, 1, 256) THEN Reorder(l, Ctx(l, 0)) ELSE Ident(Len(l)))
    IN RenCursor(l, p, Len(l), xcol) - left
=============================================================================
