------------------------------ MODULE Gen_Utf8 ------------------------------
(* C16 case tables.  MODE=str: expected helper results for every string of    *)
(* <= LMAX characters over the boundary alphabet (indices LO..HI-1).           *)
(* MODE=cps: validate a dump of (cp, bytes, uc_len, uc_code, ...) records      *)
(* produced by harness/ucprobe.c against Enc / LeadLen / Code.                 *)
EXTENDS Utf8, Json, IOUtils, SequencesExt
VARIABLE dummy
Env(k, d) == IF k \in DOMAIN IOEnv THEN IOEnv[k] ELSE d
EnvN(k, d) == IF k \in DOMAIN IOEnv THEN atoi(IOEnv[k]) ELSE d

Alpha == <<97, 127, 128, 2047, 2048, 65535, 65536, 1114111>>
NA == Len(Alpha)
RECURSIVE StrOf(_)
StrOf(k) == IF k = 0 THEN <<>> ELSE StrOf((k - 1) \div NA) \o <<Alpha[((k - 1) % NA) + 1]>>

Lite(cps) ==
    LET n == Len(cps)  nb == NBytes(cps) IN
    [cps |-> cps, bytes |-> EncAll(cps),
     slen |-> n,
     len  |-> [k \in 1..n |-> Len(Enc(cps[k]))],
     code |-> cps,
     chr  |-> [j \in 1..n + 3 |-> ChrRef(cps, j - 2)],             \* off = -1 .. n+1
     off  |-> [j \in 1..nb + 1 |-> OffRef(cps, j - 1)],            \* byte offset 0 .. nb
     next |-> [k \in 1..n + 1 |-> NextRef(cps, k - 1)],
     prev |-> [k \in 1..n + 1 |-> PrevRef(cps, k - 1)],
     beg  |-> [j \in 1..nb |-> StartOf(cps, CharAt(cps, j - 1))],
     end  |-> [j \in 1..nb |-> StartOf(cps, CharAt(cps, j - 1) + 1) - 1],
     chop |-> [k \in 1..n + 1 |-> StartOf(cps, k - 1)]]
Case(cps) ==
    LET n == Len(cps) IN
    Lite(cps) @@ [laws |-> IF Laws(cps) THEN 1 ELSE 0,
                  (* the substring between two character offsets; nothing for an inverted range; end -1 = up to the end *)
                  sub  |-> [a \in 1..n + 1 |-> [z \in 1..n + 1 |-> IF a <= z THEN SubRef(cps, a - 1, z - 1) ELSE <<>>]],
                  subend |-> [a \in 1..n + 1 |-> SubRef(cps, a - 1, n)]]
(* longer strings: the same fields without the quadratic tables *)
CaseLite(cps) == Lite(cps)

Mode == Env("MODE", "str")
Lo == EnvN("LO", 0)
Hi == EnvN("HI", 10)

(* cps mode: records [cp, bytes, len, code] *)
Dump == IF Mode = "cps" THEN ndJsonDeserialize(Env("IN", "")) ELSE <<>>
BadRecs == SelectSeq(Dump, LAMBDA r : ~(/\ r.bytes = Enc(r.cp) /\ r.len = Len(r.bytes) /\ r.code = r.cp
                                       /\ r.len = LeadLen(r.bytes[1]) /\ r.dot = r.len /\ r.brk = 1))

Table == IF Mode = "cps" THEN <<[checked |-> Len(Dump), bad |-> BadRecs]>>
         ELSE IF Mode = "strlist" THEN LET L == ndJsonDeserialize(Env("IDXFILE", "")) IN [k \in 1..Len(L) |-> CaseLite(L[k])]
         ELSE [k \in 1..(Hi - Lo) |-> Case(StrOf(Lo + k - 1))]
Init == dummy = 0 /\ ndJsonSerialize(Env("OUT", "/tmp/gen_utf8.ndjson"), Table)
Next == UNCHANGED dummy
Spec == Init /\ [][Next]_dummy
=============================================================================
