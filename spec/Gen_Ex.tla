------------------------------- MODULE Gen_Ex -------------------------------
(***************************************************************************)
(* Behaviours of the ex line editor for C06 / C14 / C15 (and C04, C16 at    *)
(* editor level): seeded pseudo-random scripts built command by command     *)
(* from the current model state, each prompt line with the state the        *)
(* reference semantics (Ex!ExLine) expects after it.  harness/editor.py     *)
(* types the scripts into `vi -s -e' and compares the recorded states.      *)
(* Environment: SEED0, NSCRIPTS, NSTEPS, PROFILE, OUT.                       *)
(***************************************************************************)
EXTENDS Ex, Json, IOUtils
VARIABLE dummy
Env(k, d) == IF k \in DOMAIN IOEnv THEN IOEnv[k] ELSE d
EnvN(k, d) == IF k \in DOMAIN IOEnv THEN atoi(IOEnv[k]) ELSE d

(* a stateless hash: the j-th random number of step t of script sd *)
Rnd(sd, t, j) == LET a == (sd * 131 + t * 31 + j * 7 + 17) % 60000
                     b == (t * 197 + j * 61 + sd + 3) % 60000
                 IN ((((a * 31337 + b * 2467 + 12345) % 65521) * 251 + a + 3 * b) % 32749)
Pick(sd, t, j, n) == Rnd(sd, t, j) % n              \* 0 .. n-1
Elem(sd, t, j, s) == s[Pick(sd, t, j, Len(s)) + 1]

Profile == Env("PROFILE", "lines")

(* pools: texts over ASCII, blanks, punctuation and multi-byte characters *)
LinePool == << <<97>>, <<97, 98>>, <<98, 32, 97>>, <<>>, <<97, 97>>, <<233>>, <<120, 233, 32, 98>>, <<97, 46, 98>>,
               <<32, 32, 97>>, <<98>>, <<97, 98, 97>>, <<28450, 97>>, <<65, 98>>, <<97, 32, 97, 32, 97>>,
               <<40, 97, 41>>, <<98, 98>>, <<97, 47, 98>>, <<97, 92, 98, 32, 97, 47>> >>
PatPool == << <<97>>, <<98>>, <<94, 97>>, <<97, 36>>, <<92, 60, 97>>, <<97, 92, 62>>, <<97, 42>>, <<120, 42>>, <<46>>,
              <<40, 97, 124, 98, 41, 43>>, <<91, 94, 97, 93>>, <<94, 36>>, <<233>>, <<97, 98>>, <<>>, <<92, 60>>,
              <<98, 42>>, <<40, 97, 41, 40, 98, 41, 63>>, <<94>>, <<36>>, <<32>>, <<65>>,
              (* a multi-byte literal under a quantifier; a pattern holding the delimiter; one ending in an escaped backslash *)
              <<233, 42>>, <<97, 233, 63>>, <<97, 47>>, <<97, 92, 92>> >>
RepPool == << <<>>, <<88>>, <<92, 48, 92, 48>>, <<91, 92, 49, 93>>, <<92, 92>>, <<233>>, <<38>>, <<92, 50, 45, 92, 49>>,
              <<97>>, <<120, 121>>,
              (* the delimiter, a double quote and a bar inside the replacement *)
              <<120, 34, 121>>, <<47, 124, 122>>, <<47, 34>> >>
RegPool == <<0, 97, 98, 65, 0, 97>>
MarkPool == <<97, 98>>

Off(sd, t, j) == LET k == Pick(sd, t, j, 10) IN
                 IF k < 5 THEN <<>> ELSE IF k = 5 THEN <<1>> ELSE IF k = 6 THEN <<-1>> ELSE IF k = 7 THEN <<2>>
                 ELSE IF k = 8 THEN <<-1, 1>> ELSE <<3>>

(* one address, chosen with the state in view so that in-range, boundary and out-of-range cases all occur *)
GenAddr(ed, sd, t, j) ==
    LET n == NLines(ed)
        k == Pick(sd, t, j, 20)
        base == IF k < 8 THEN [b |-> "num", n |-> Pick(sd, t, j + 1, n + 3), m |-> 0, re |-> <<>>, lz |-> Pick(sd, t, j + 9, 5) = 0]
                ELSE IF k < 11 THEN [b |-> "dot", n |-> 0, m |-> 0, re |-> <<>>]
                ELSE IF k < 14 THEN [b |-> "last", n |-> 0, m |-> 0, re |-> <<>>]
                ELSE IF k < 16 THEN LET m == Elem(sd, t, j + 1, MarkPool) IN
                                    IF ed.marks[m].known THEN [b |-> "mark", n |-> 0, m |-> m, re |-> <<>>]
                                    ELSE [b |-> "dot", n |-> 0, m |-> 0, re |-> <<>>]
                ELSE IF k < 18 THEN [b |-> "fwd", n |-> 0, m |-> 0, re |-> Elem(sd, t, j + 1, PatPool)]
                ELSE IF k < 19 THEN [b |-> "bwd", n |-> 0, m |-> 0, re |-> Elem(sd, t, j + 1, PatPool)]
                ELSE [b |-> "none", n |-> 0, m |-> 0, re |-> <<>>]
        offs == IF base.b = "none" THEN <<IF Pick(sd, t, j + 2, 2) = 0 THEN 1 ELSE -1>> ELSE Off(sd, t, j + 2)
    IN base @@ [offs |-> offs]

GenLoc(ed, sd, t, j) ==
    LET k == Pick(sd, t, j, 20) IN
    IF k < 6 THEN <<>>
    ELSE IF k < 13 THEN <<[a |-> GenAddr(ed, sd, t, j + 1), sep |-> ""]>>
    ELSE IF k < 17 THEN <<[a |-> GenAddr(ed, sd, t, j + 1), sep |-> ","], [a |-> GenAddr(ed, sd, t, j + 4), sep |-> ""]>>
    ELSE IF k < 18 THEN <<[a |-> GenAddr(ed, sd, t, j + 1), sep |-> ";"], [a |-> GenAddr(ed, sd, t, j + 4), sep |-> ""]>>
    ELSE IF k < 19 THEN <<[a |-> GenAddr(ed, sd, t, j + 1), sep |-> ","], [a |-> GenAddr(ed, sd, t, j + 4), sep |-> ","],
                          [a |-> GenAddr(ed, sd, t, j + 7), sep |-> ""]>>
    ELSE PctLoc

GenText(sd, t, j) == [i \in 1..Pick(sd, t, j, 4) |-> Elem(sd, t, j + i, LinePool)]

(* command lists run by a global (C15): delete, substitute, put, text commands, relative addresses, nested global *)
RelLoc(o) == <<[a |-> [b |-> "none", n |-> 0, m |-> 0, re |-> <<>>, offs |-> <<o>>], sep |-> ""]>>
GlobCmd(ed, sd, t, j) ==
    LET k == Pick(sd, t, j, 17)
        num(n) == [a |-> [b |-> "num", n |-> n, m |-> 0, re |-> <<>>, offs |-> <<>>], sep |-> ""]
    IN
    (* deletions in front of the line being visited, also of lines before the range of the global *)
    IF k = 14 THEN [k |-> "d", loc |-> <<[a |-> [b |-> "none", n |-> 0, m |-> 0, re |-> <<>>, offs |-> <<-1>>], sep |-> ","],
                                          [a |-> [b |-> "dot", n |-> 0, m |-> 0, re |-> <<>>, offs |-> <<>>], sep |-> ""]>>, reg |-> 0]
    ELSE IF k = 15 THEN [k |-> "d", loc |-> <<num(1)>>, reg |-> 0]
    ELSE IF k = 16 THEN [k |-> "d", loc |-> <<[num(1) EXCEPT !.sep = ","], num(2)>>, reg |-> 0]
    ELSE IF k = 0 \/ k = 1 THEN [k |-> "d", loc |-> <<>>, reg |-> 0]
    ELSE IF k = 2 \/ k = 3 THEN [k |-> "s", loc |-> <<>>, re |-> Elem(sd, t, j + 1, PatPool), rep |-> Elem(sd, t, j + 2, RepPool),
                                 g |-> Pick(sd, t, j + 3, 2) = 0]
    ELSE IF k = 4 THEN [k |-> "pu", loc |-> <<>>, reg |-> Elem(sd, t, j + 1, RegPool)]
    ELSE IF k = 5 THEN [k |-> "a", loc |-> <<>>, txt |-> GenText(sd, t, j + 1)]
    ELSE IF k = 6 THEN [k |-> "i", loc |-> <<>>, txt |-> GenText(sd, t, j + 1)]
    (* c of the visited line, or of the next one: the typed text takes the place of a line still to be visited *)
    ELSE IF k = 7 THEN [k |-> "c", loc |-> IF Pick(sd, t, j + 4, 2) = 0 THEN <<>> ELSE RelLoc(1), txt |-> GenText(sd, t, j + 1)]
    ELSE IF k = 8 THEN [k |-> "d", loc |-> RelLoc(-1), reg |-> 0]
    ELSE IF k = 9 THEN [k |-> "d", loc |-> RelLoc(1), reg |-> 0]
    ELSE IF k = 10 THEN [k |-> "p", loc |-> RelLoc(IF Pick(sd, t, j + 1, 2) = 0 THEN 1 ELSE -1)]
    ELSE IF k = 11 THEN [k |-> "y", loc |-> <<>>, reg |-> 97]
    ELSE IF k = 12 THEN [k |-> "k", loc |-> <<>>, m |-> 97]
    ELSE [k |-> "g", loc |-> <<>>, re |-> Elem(sd, t, j + 1, PatPool),
          cmds |-> <<[k |-> "s", loc |-> <<>>, re |-> <<97>>, rep |-> <<88>>, g |-> FALSE]>>]

(* files the harness puts into the working directory of every run: name -> <<lines>>, <<>> for a name without file *)
FilePool == << [name |-> <<102, 49>>, file |-> << << <<114, 49>>, <<233, 32, 114, 50>>, <<>> >> >>],      \* f1: "r1", "e' r2", ""
               [name |-> <<102, 48>>, file |-> << <<>> >>],                                              \* f0: empty
               [name |-> <<110, 102>>, file |-> <<>>] >>                                                \* nf: missing
(* command lines kept in register m (no other command of the scripts writes it) and run by @m *)
MacroPool == << <<[k |-> "d", loc |-> <<>>, reg |-> 0]>>,
                <<[k |-> "s", loc |-> <<>>, re |-> <<97>>, rep |-> <<88>>, g |-> TRUE], [k |-> "p", loc |-> <<>>]>>,
                <<[k |-> "pu", loc |-> <<>>, reg |-> 97]>>,
                <<[k |-> "d", loc |-> RelLoc(1), reg |-> 98], [k |-> "p", loc |-> RelLoc(-1)]>>,
                <<[k |-> "y", loc |-> <<>>, reg |-> 97], [k |-> "pu", loc |-> <<>>, reg |-> 97], [k |-> "k", loc |-> <<>>, m |-> 98]>>,
                <<[k |-> "g", loc |-> <<>>, re |-> <<97>>, cmds |-> <<[k |-> "d", loc |-> <<>>, reg |-> 0]>>]>> >>
(* a macro is stored one command per line *)
MacroText(cs) == [i \in 1..Len(cs) |-> CmdStr(cs[i])]
MacroOf(ed) == LET g == RegGet(ed.regs, 109)
                   hit == {i \in 1..Len(MacroPool) : g.has /\ g.s = JoinLines(MacroText(MacroPool[i]))}
               IN IF hit = {} THEN 0 ELSE CHOOSE i \in hit : TRUE

GenCmd(ed, sd, t, j) ==
    LET wl == IF Profile = "sub" THEN 0 ELSE IF Profile = "glob" THEN 1 ELSE 2
        k  == Pick(sd, t, j, 100)
        kind0 == IF NLines(ed) = 0 /\ k < 70 THEN "a"
                ELSE IF wl = 0 /\ k < 55 THEN "s"
                ELSE IF wl = 1 /\ k < 45 THEN (IF k < 36 THEN "g" ELSE "v")
                ELSE LET q0 == Pick(sd, t, j + 1, 100)
                         (* the substitute and global commands belong to the profiles of C14 and C15 *)
                         q == IF wl = 2 /\ q0 >= 66 /\ q0 < 82 THEN q0 - 50
                              ELSE IF wl = 0 /\ q0 >= 74 /\ q0 < 82 THEN q0 - 50 ELSE q0 IN
                     IF EnvN("UNDOHEAVY", 0) = 1 /\ Pick(sd, t, j + 3, 10) < 3 THEN (IF Pick(sd, t, j + 4, 3) = 0 THEN "redo" ELSE "u")
                     ELSE IF q < 14 THEN "a" ELSE IF q < 20 THEN "i" ELSE IF q < 27 THEN "c" ELSE IF q < 38 THEN "d"
                     ELSE IF q < 43 THEN "y" ELSE IF q < 52 THEN "pu" ELSE IF q < 58 THEN "p" ELSE IF q < 61 THEN "="
                     ELSE IF q < 66 THEN "k" ELSE IF q < 74 THEN "s" ELSE IF q < 80 THEN "g" ELSE IF q < 82 THEN "v"
                     ELSE IF q < 89 THEN "u" ELSE IF q < 93 THEN "redo" ELSE IF q < 96 THEN "null"
                     ELSE IF q < 98 THEN "rs" ELSE "se"
        (* the lines profile also reads files, filters ranges and runs the macro register *)
        x == Pick(sd, t, j + 5, 100)
        kind == IF wl # 2 \/ kind0 \in {"u", "redo"} \/ NLines(ed) = 0 THEN kind0
                ELSE IF x < 5 THEN "r" ELSE IF x < 9 THEN "!" ELSE IF x < 12 THEN "defm" ELSE IF x < 17 /\ MacroOf(ed) > 0 THEN "@" ELSE kind0
        loc0 == GenLoc(ed, sd, t, j + 2)
        (* an empty prompt line does nothing at all: the bare-address command needs an address *)
        loc == IF kind = "null" /\ loc0 = <<>> THEN <<[a |-> [b |-> "dot", n |-> 0, m |-> 0, re |-> <<>>, offs |-> <<1>>], sep |-> ""]>>
               ELSE loc0
    IN CASE kind \in {"a", "i", "c"} -> [k |-> kind, loc |-> loc, txt |-> GenText(sd, t, j + 12)]
         [] kind \in {"d", "y", "pu"} -> [k |-> kind, loc |-> loc, reg |-> Elem(sd, t, j + 12, RegPool)]
         [] kind \in {"p", "=", "null"} -> [k |-> kind, loc |-> loc]
         [] kind = "k" -> [k |-> "k", loc |-> loc, m |-> Elem(sd, t, j + 12, MarkPool)]
         [] kind = "s" -> LET rp == IF Pick(sd, t, j + 17, 5) = 0 THEN <<>> ELSE Elem(sd, t, j + 13, RepPool)
                              re == Elem(sd, t, j + 12, PatPool)
                          IN [k |-> "s", loc |-> loc, re |-> re, rep |-> rp,
                              g |-> IF rp = <<>> /\ Pick(sd, t, j + 18, 2) = 0 THEN FALSE ELSE Pick(sd, t, j + 14, 2) = 0,
                              (* 1: "s/re/", 2: "s/re" - only for a non-empty pattern (an empty one would end the command line early) *)
                              short |-> IF re = <<>> THEN 0 ELSE Pick(sd, t, j + 19, 3)]
         [] kind \in {"g", "v"} -> [k |-> kind, loc |-> IF loc = <<>> \/ Pick(sd, t, j + 15, 3) = 0 THEN <<>> ELSE loc,
                                    re |-> Elem(sd, t, j + 12, PatPool), sp |-> Pick(sd, t, j + 21, 3),
                                    cmds |-> LET nc == 1 + Pick(sd, t, j + 13, 4) \div 2 IN
                                             [i \in 1..nc |->
                                                LET gc == GlobCmd(ed, sd, t, j + 16 + 5 * i) IN
                                                (* a nested global takes the rest of the line: only in last place *)
                                                IF gc.k = "g" /\ i < nc THEN [k |-> "d", loc |-> <<>>, reg |-> 0] ELSE gc]]
         [] kind = "rs" -> [k |-> "rs", reg |-> 97, txt |-> GenText(sd, t, j + 12)]
         [] kind = "defm" -> [k |-> "rs", reg |-> 109, txt |-> MacroText(Elem(sd, t, j + 12, MacroPool))]
         [] kind = "r" -> LET f == Elem(sd, t, j + 12, FilePool) IN [k |-> "r", loc |-> loc, name |-> f.name, file |-> f.file]
         [] kind = "!" -> [k |-> "!", loc |-> IF loc = <<>> THEN <<[a |-> [b |-> "dot", n |-> 0, m |-> 0, re |-> <<>>, offs |-> <<>>], sep |-> ""]>> ELSE loc]
         [] kind = "@" -> [k |-> "@", loc |-> loc, reg |-> 109, cmds |-> MacroPool[MacroOf(ed)]]
         [] kind = "se" -> [k |-> "se", val |-> Pick(sd, t, j + 12, 2) = 0]
         [] OTHER -> [k |-> kind]

(* a prompt line: usually one command, sometimes two separated by "|" (a global must come last) *)
GenLineCmds(ed, sd, t) ==
    LET c1 == GenCmd(ed, sd, t, 0)
        nm(n) == [a |-> [b |-> "num", n |-> n, m |-> 0, re |-> <<>>, offs |-> <<>>], sep |-> ""]
    IN
    (* the glob profile plays, every ten lines, a global that aborts after it has made the buffer longer (the lines it has not
       visited stay marked) and then a global over the first two lines only *)
    IF Profile = "glob" /\ t % 10 = 4 /\ NLines(ed) >= 2
    THEN <<[k |-> "g", loc |-> <<>>, re |-> <<46>>, cmds |-> <<[k |-> "y", loc |-> <<>>, reg |-> 97], [k |-> "pu", loc |-> <<>>, reg |-> 97],
                                                              [k |-> "d", loc |-> RelLoc(9 + NLines(ed)), reg |-> 0]>>]>>
    ELSE IF Profile = "glob" /\ t % 10 = 5 /\ NLines(ed) >= 3
    THEN <<[k |-> "g", loc |-> <<[nm(1) EXCEPT !.sep = ","], nm(2)>>, re |-> <<46>>,
            cmds |-> <<[k |-> "s", loc |-> <<>>, re |-> <<36>>, rep |-> <<88>>, g |-> FALSE]>>]>>
    (* ... and a global whose list removes the visited line and the one before it and then moves the current line
       forward again (put / print): the marked lines that follow slide below the index of the visited one *)
    ELSE IF Profile = "glob" /\ t % 10 = 6 /\ NLines(ed) >= 4
    THEN LET back == [k |-> "d", loc |-> <<[a |-> [b |-> "none", n |-> 0, m |-> 0, re |-> <<>>, offs |-> <<-1>>], sep |-> ","],
                                          [a |-> [b |-> "dot", n |-> 0, m |-> 0, re |-> <<>>, offs |-> <<>>], sep |-> ""]>>, reg |-> 0]
             fwd == IF Pick(sd, t, 1, 2) = 0 THEN [k |-> "pu", loc |-> <<>>, reg |-> 0] ELSE [k |-> "p", loc |-> RelLoc(1)]
         IN <<[k |-> "g", loc |-> <<[nm(2) EXCEPT !.sep = ","], [a |-> [b |-> "last", n |-> 0, m |-> 0, re |-> <<>>, offs |-> <<>>], sep |-> ""]>>,
               re |-> <<46>>, cmds |-> <<[k |-> "s", loc |-> <<>>, re |-> <<36>>, rep |-> <<33>>, g |-> FALSE], back, fwd>>]>>
    (* ... and a global that changes the line after the visited one to a text that matches: the typed line is not visited *)
    ELSE IF Profile = "glob" /\ t % 10 = 7 /\ NLines(ed) >= 3
    THEN <<[k |-> "g", loc |-> <<>>, re |-> <<46>>, cmds |-> <<[k |-> "s", loc |-> <<>>, re |-> <<36>>, rep |-> <<33>>, g |-> FALSE],
                                                              [k |-> "c", loc |-> RelLoc(1), txt |-> << <<97, 110>> >>]>>]>>
    ELSE
    (* "rs" and "!" take the rest of their line; the commands of @ are a command line of their own (own undo step) *)
    (* after u / redo the rows of the marks are not constrained: no second command (it may address a mark) on that line *)
    IF Pick(sd, t, 50, 8) = 0 /\ c1.k \notin {"g", "v", "null", "rs", "!", "@", "u", "redo"}
       /\ ~(c1.k = "s" /\ c1.short > 0 /\ c1.rep = <<>> /\ ~c1.g)        \* "s/re" and "s/re/" take the rest of their line as pattern / replacement
    THEN LET c2 == GenCmd(ed, sd, t, 60) IN IF c2.k \in {"null", "@"} THEN <<c1>> ELSE <<c1, c2>>
    ELSE <<c1>>

(* what is compared with the implementation after every prompt line *)
RegList(ed) == LET names == {r \in DOMAIN ed.regs : ed.regs[r].has} IN
               SetToSeq({<<r, IF ed.regs[r].ln THEN 1 ELSE 0, ed.regs[r].s>> : r \in names})
MarkList(ed) == SetToSeq({<<m, ed.marks[m].row>> : m \in {x \in DOMAIN ed.marks : ed.marks[x].solid /\ ed.marks[x].known}})
Proj(ed) == [lines |-> Lines(ed), row |-> ed.row, ret |-> ed.ret, out |-> ed.out, regs |-> RegList(ed),
             marks |-> MarkList(ed), dirty |-> IF Lb!Dirty(ed.lb) THEN 1 ELSE 0, hu |-> ed.lb.hu,
             past |-> Len(ed.lb.past), future |-> Len(ed.lb.future)]

(* properties of the reference semantics itself, evaluated by TLC on every generated step:
   a rejected line command leaves the text alone; whatever one prompt line changed is undone by one
   undo step (C04, C15: a whole global is one step) and comes back with one redo; registers and marks
   keep their domains; every character is a scalar value (C16) *)
Thm(ed, cs, e1) ==
    /\ (Len(cs) = 1 /\ cs[1].k \notin {"u", "redo", "g", "v"} /\ e1.ret # 0) => Lines(e1) = Lines(ed)
    /\ (e1.lb.hist # ed.lb.hist /\ \A i \in 1..Len(cs) : cs[i].k \notin {"u", "redo"})
          => (LET u == Lb!Undo(e1.lb) IN u.ret = 0 /\ u.lines = Lines(ed) /\ Lb!Redo(u).lines = Lines(e1))
    /\ \A i \in 1..NLines(e1) : \A j \in 1..Len(Lines(e1)[i]) : Lines(e1)[i][j] < 1114112 /\ Lines(e1)[i][j] # NL
    /\ e1.row >= 0
    /\ Lb!GhostMatches(e1.lb) /\ Lb!AtBoundary(e1.lb)

HasWB(re) == \E i \in 1..Len(re) - 1 : re[i] = 92 /\ re[i + 1] \in {60, 62}
RECURSIVE CmdWB(_)
CmdWB(c) == \/ ("re" \in DOMAIN c /\ HasWB(c.re))
            \/ ("cmds" \in DOMAIN c /\ \E i \in 1..Len(c.cmds) : CmdWB(c.cmds[i]))
            \/ ("loc" \in DOMAIN c /\ \E i \in 1..Len(c.loc) : HasWB(c.loc[i].a.re))
RegNames == {0, 97, 98, 109} \cup 49..57
RECURSIVE Script(_, _, _, _)
Script(ed, sd, t, n) ==
    IF t > n THEN <<>>
    ELSE LET cs == GenLineCmds(ed, sd, t)
             e1 == ExLine(ed, cs)
             (* the same line under the operational transcriptions: where they give another state the line is
                a replay of a known finding, and the script ends there *)
             e1c == ExLine([ed EXCEPT !.code = TRUE], cs)
             same == Proj(e1c) = Proj(e1)
             step == [typed |-> Typed(cs, e1), kinds |-> [i \in 1..Len(cs) |-> cs[i].k], exp |-> Proj(e1),
                      thm |-> IF Thm(ed, cs, e1) THEN 1 ELSE 0]
         IN IF same THEN <<step>> \o Script(e1, sd, t + 1, n)
            ELSE <<step @@ [alt |-> Proj(e1c), wb |-> IF HasWB(e1.kwd) \/ HasWB(ed.kwd) \/ \E i \in 1..Len(cs) : CmdWB(cs[i]) THEN 1 ELSE 0]>>

(* fixed scripts: replays of findings (known and fixed) that every run of the checks repeats *)
A(k, n) == <<[a |-> [b |-> k, n |-> n, m |-> 0, re |-> <<>>, offs |-> <<>>], sep |-> ""]>>
AppendL(ls) == [k |-> "a", loc |-> <<>>, txt |-> ls]
SubG(re, rp) == [k |-> "s", loc |-> <<>>, re |-> re, rep |-> rp, g |-> TRUE]
Corpus == <<
    (* KF-sub-wordctx: s/\</X/g on "ab cd" *)
    << <<AppendL(<< <<97, 98, 32, 99, 100>> >>)>>, <<SubG(<<92, 60>>, <<88>>)>> >>,
    (* fixed: s/^a/x/g on "aaa"; s/x*/-/g on a multi-byte line *)
    << <<AppendL(<< <<97, 97, 97>>, <<233, 28450>> >>)>>, <<[SubG(<<94, 97>>, <<120>>) EXCEPT !.loc = A("num", 1)]>>,
       <<[SubG(<<120, 42>>, <<45>>) EXCEPT !.loc = A("num", 2)]>> >>,
    (* fixed: :0a before line 1; :1c with an empty text block, then a default-address command *)
    << <<AppendL(<< <<97>>, <<98>> >>)>>, <<[k |-> "a", loc |-> A("num", 0), txt |-> << <<120>> >>]>>,
       <<[k |-> "c", loc |-> A("num", 1), txt |-> <<>>]>>, <<[k |-> "d", loc |-> <<>>, reg |-> 0]>>,
       <<[k |-> "p", loc |-> PctLoc]>> >>,
    (* fixed: an out-of-range address before ";" *)
    << <<AppendL(<< <<97>>, <<98>> >>)>>,
       <<[k |-> "p", loc |-> <<[a |-> [b |-> "num", n |-> 9, m |-> 0, re |-> <<>>, offs |-> <<>>], sep |-> ";"],
                                [a |-> [b |-> "dot", n |-> 0, m |-> 0, re |-> <<>>, offs |-> <<>>], sep |-> ""]>>]>>,
       <<[k |-> "d", loc |-> <<>>, reg |-> 0]>>, <<[k |-> "p", loc |-> PctLoc]>> >>,
    (* KF-sub-wordctx through a global *)
    << <<AppendL(<< <<97, 98, 32, 99, 100>>, <<120>> >>)>>,
       <<[k |-> "g", loc |-> <<>>, re |-> <<97>>, cmds |-> <<SubG(<<92, 60>>, <<88>>)>>]>> >>,
    (* fixed: \1 in the replacement of a literal pattern; a|b is not literal text *)
    << <<AppendL(<< <<97, 98, 99>>, <<98>>, <<97, 124, 98>> >>)>>,
       <<[k |-> "s", loc |-> A("num", 1), re |-> <<97, 98, 99>>, rep |-> <<91, 92, 49, 93>>, g |-> FALSE]>>,
       <<[k |-> "s", loc |-> PctLoc, re |-> <<97, 124, 98>>, rep |-> <<88>>, g |-> FALSE]>> >>
  >>
RECURSIVE Fixed(_, _, _)
Fixed(ed, lines, t) ==
    IF t > Len(lines) THEN <<>>
    ELSE LET cs == lines[t]
             e1 == ExLine(ed, cs)
             e1c == ExLine([ed EXCEPT !.code = TRUE], cs)
             step == [typed |-> Typed(cs, e1), kinds |-> [i \in 1..Len(cs) |-> cs[i].k], exp |-> Proj(e1),
                      thm |-> IF Thm(ed, cs, e1) THEN 1 ELSE 0]
         IN IF Proj(e1c) = Proj(e1) THEN <<step>> \o Fixed(e1, lines, t + 1)
            ELSE <<step @@ [alt |-> Proj(e1c), wb |-> IF HasWB(e1.kwd) \/ HasWB(ed.kwd) \/ \E i \in 1..Len(cs) : CmdWB(cs[i]) THEN 1 ELSE 0]>>


(* ---- exhaustive short scripts (profile "exh") ------------------------------------------------------------------------------
   Every sequence of EXHD prompt lines over the fixed command list ExhCmds, from a fixed three-line buffer: sequence number k
   (EXHLO <= k < EXHHI) in base Len(ExhCmds).  Addresses in and out of range, marks, registers, undo / redo after every kind
   of change, text commands with empty and non-empty text, substitute, global, read, filter. *)
ExA(b, n, offs) == [a |-> [b |-> b, n |-> n, m |-> 0, re |-> <<>>, offs |-> offs], sep |-> ""]
ExL1(b, n) == <<ExA(b, n, <<>>)>>
ExL2(b1, n1, sep, b2, n2) == <<[ExA(b1, n1, <<>>) EXCEPT !.sep = sep], ExA(b2, n2, <<>>)>>
ExMark == <<[a |-> [b |-> "mark", n |-> 0, m |-> 97, re |-> <<>>, offs |-> <<>>], sep |-> ""]>>
ExhCmds == <<
    <<[k |-> "d", loc |-> <<>>, reg |-> 0]>>,
    <<[k |-> "d", loc |-> ExL1("num", 1), reg |-> 97]>>,
    <<[k |-> "d", loc |-> ExL2("num", 2, ",", "last", 0), reg |-> 65]>>,
    <<[k |-> "d", loc |-> ExL1("num", 4), reg |-> 0]>>,
    <<[k |-> "a", loc |-> ExL1("num", 0), txt |-> << <<120>> >>]>>,
    <<[k |-> "a", loc |-> <<>>, txt |-> << <<97>>, <<233, 98>> >>]>>,
    <<[k |-> "i", loc |-> ExL1("num", 2), txt |-> << <<>> >>]>>,
    <<[k |-> "c", loc |-> ExL1("num", 1), txt |-> <<>>]>>,
    <<[k |-> "c", loc |-> <<[ExA("dot", 0, <<>>) EXCEPT !.sep = ","], ExA("none", 0, <<1>>)>>, txt |-> << <<97, 32, 97>> >>]>>,
    <<[k |-> "y", loc |-> ExL2("num", 1, ",", "num", 2), reg |-> 97]>>,
    <<[k |-> "pu", loc |-> <<>>, reg |-> 97]>>,
    <<[k |-> "pu", loc |-> ExL1("num", 0), reg |-> 0]>>,
    <<[k |-> "pu", loc |-> ExL1("last", 0), reg |-> 97]>>,
    <<[k |-> "k", loc |-> ExL1("num", 2), m |-> 97]>>,
    <<[k |-> "d", loc |-> ExMark, reg |-> 0]>>,
    <<[k |-> "p", loc |-> <<[a |-> [b |-> "mark", n |-> 0, m |-> 97, re |-> <<>>, offs |-> <<>>], sep |-> ","], ExA("last", 0, <<>>)>>]>>,
    <<[k |-> "u"]>>,
    <<[k |-> "redo"]>>,
    <<[k |-> "null", loc |-> ExL1("num", 2)]>>,
    <<[k |-> "null", loc |-> <<ExA("none", 0, <<1>>)>>]>>,
    <<[k |-> "=", loc |-> ExL1("dot", 0)]>>,
    <<[k |-> "p", loc |-> <<[ExA("num", 3, <<>>) EXCEPT !.sep = ";"], ExA("none", 0, <<1>>)>>]>>,
    <<[k |-> "p", loc |-> PctLoc]>>,
    <<[k |-> "s", loc |-> <<>>, re |-> <<97>>, rep |-> <<88>>, g |-> TRUE]>>,
    <<[k |-> "s", loc |-> PctLoc, re |-> <<94>>, rep |-> <<45>>, g |-> FALSE]>>,
    <<[k |-> "g", loc |-> <<>>, re |-> <<97>>, cmds |-> <<[k |-> "d", loc |-> <<>>, reg |-> 0]>>]>>,
    <<[k |-> "v", loc |-> <<>>, re |-> <<98>>, cmds |-> <<[k |-> "s", loc |-> <<>>, re |-> <<97>>, rep |-> <<98>>, g |-> FALSE]>>]>>,
    <<[k |-> "!", loc |-> ExL2("num", 1, ",", "num", 2)]>>,
    <<[k |-> "r", loc |-> <<>>, name |-> <<102, 49>>, file |-> FilePool[1].file]>>,
    <<[k |-> "d", loc |-> <<>>, reg |-> 0], [k |-> "u"]>>,
    <<[k |-> "a", loc |-> ExL1("last", 0), txt |-> << <<98>> >>], [k |-> "d", loc |-> ExL1("num", 1), reg |-> 0]>>
  >>
ExhD == EnvN("EXHD", 2)
RECURSIVE ExhSeq(_, _)
ExhSeq(k, d) == IF d = 0 THEN <<>> ELSE ExhSeq(k \div Len(ExhCmds), d - 1) \o <<ExhCmds[(k % Len(ExhCmds)) + 1]>>
ExhInit == <<[k |-> "a", loc |-> <<>>, txt |-> << <<97, 32, 98>>, <<97, 98>>, <<98>> >>]>>
RECURSIVE ExhSteps(_, _, _)
ExhSteps(ed, lines, t) ==
    IF t > Len(lines) THEN <<>>
    ELSE LET cs == lines[t]  e1 == ExLine(ed, cs) IN
         <<[typed |-> Typed(cs, e1), kinds |-> [i \in 1..Len(cs) |-> cs[i].k], exp |-> Proj(e1), thm |-> IF Thm(ed, cs, e1) THEN 1 ELSE 0]>>
         \o ExhSteps(e1, lines, t + 1)
ExhTable == [k \in 1..(EnvN("EXHHI", 1) - EnvN("EXHLO", 0)) |->
                [seed |-> 0 - (EnvN("EXHLO", 0) + k), profile |-> "exh",
                 steps |-> ExhSteps(NewEd(RegNames, {97, 98}), <<ExhInit>> \o ExhSeq(EnvN("EXHLO", 0) + k - 1, ExhD), 1)]]

Seed0 == EnvN("SEED0", 1)
NScripts == EnvN("NSCRIPTS", 4)
NSteps == EnvN("NSTEPS", 20)
Table == IF Profile = "exh" THEN ExhTable
         ELSE IF Profile = "corpus"
         THEN [k \in 1..Len(Corpus) |-> [seed |-> -k, profile |-> "corpus", steps |-> Fixed(NewEd(RegNames, {97, 98}), Corpus[k], 1)]]
         ELSE [k \in 1..NScripts |-> [seed |-> Seed0 + k - 1, profile |-> Profile,
                                       steps |-> Script(NewEd(RegNames, {97, 98}), Seed0 + k - 1, 1, NSteps)]]
Init == dummy = 0 /\ ndJsonSerialize(Env("OUT", "/tmp/gen_ex.ndjson"), Table)
Next == UNCHANGED dummy
Spec == Init /\ [][Next]_dummy
=============================================================================
