------------------------------- MODULE MC_Bufs -------------------------------
(* Exhaustive small-scope model of the buffer table and file commands:      *)
(* DirtySound, NoLoss (C02), TableOK, SwitchIsolation (C20), failure and    *)
(* guard rules (C03), over all histories of opens, switches, edits, undo,   *)
(* writes (whole / partial / foreign / failing), reloads, deletions, quits. *)
EXTENDS Bufs
CONSTANTS NB, MaxSteps, Paths
VARIABLES st, steps, trail     \* trail: ghost, the commands so far (not in the VIEW)

W0 == [k |-> "w", path |-> "", whole |-> TRUE, beg |-> 0, end |-> 0, force |-> TRUE, fault |-> ""]
Cmds(s) ==
    LET n == Len(Cur(s).lb.lines) IN
    {[k |-> "e", path |-> p, force |-> f] : p \in Paths \cup {""}, f \in BOOLEAN} \cup
    {[k |-> "e", path |-> p, force |-> FALSE, ew |-> TRUE] : p \in Paths} \cup
    {[k |-> "w", path |-> p, whole |-> TRUE, beg |-> 0, end |-> 0, force |-> f, fault |-> ft] :
        p \in Paths \cup {""}, f \in BOOLEAN, ft \in {"", "open", "io"}} \cup
    {[k |-> "w", path |-> "", whole |-> FALSE, beg |-> 0, end |-> 1, force |-> FALSE, fault |-> ""] : x \in {y \in {1} : n >= 2}} \cup
    {[k |-> q, force |-> f, fault |-> ""] : q \in {"q", "wq", "x", "xa"}, f \in BOOLEAN} \cup
    {[k |-> "b", how |-> h, n |-> 2, force |-> FALSE] : h \in {"next", "prev", "alias", "del"}} \cup
    {[k |-> "n", dis |-> d] : d \in {x \in {-1, 1} : s.args # <<>>}} \cup
    {[k |-> "a", n |-> 2], [k |-> "d"], [k |-> "u"], [k |-> "redo"], [k |-> "top"], [k |-> "wp"]} \cup
    {[k |-> "se", opt |-> o, val |-> v] : o \in {"aw", "wa"}, v \in BOOLEAN} \cup
    {[k |-> "touch", path |-> p] : p \in Paths} \cup
    {[k |-> "line", cs |-> cs] : cs \in {<<[k |-> "top"], [k |-> "d"], W0, [k |-> "d"]>>, <<[k |-> "d"], W0, [k |-> "u"]>>, <<W0, [k |-> "d"]>>}}

(* started without file arguments, or with all the paths as arguments *)
Init == st \in {NewState(Paths, NB), WithArgs(NewState(Paths, NB), SetToSeq(Paths))} /\ steps = 0 /\ trail = <<>>
Next == /\ ~st.quit /\ steps < MaxSteps
        /\ \E c \in Cmds(st) : st' = Step(st, c) /\ trail' = Append(trail, c)
        /\ steps' = steps + 1
Spec == Init /\ [][Next]_<<st, steps, trail>>
View == <<st, steps>>

Inv == DirtySound(st) /\ NoLoss(st) /\ TableOK(st)
(* switching commands leave every buffer alone; a failed or refused command changes no text *)
ActionProps == [][ /\ (st'.ret # 0 /\ ~st'.quit /\ trail'[Len(trail')].k # "line") => \A i \in 1..Len(st.tab) : \E j \in 1..Len(st'.tab) :
                                                  st'.tab[j].id = st.tab[i].id /\ st'.tab[j].lb.lines = st.tab[i].lb.lines
                 ]_<<st, steps, trail>>
=============================================================================
