------------------------------- MODULE Lbuf -------------------------------
(***************************************************************************)
(* The line buffer of neatvi (lbuf.c): a sequence of lines with an edit     *)
(* log, an undo cursor and the sequence-number bookkeeping that decides     *)
(* "modified".  The log is kept exactly as the C code keeps it; the ghost   *)
(* fields past / future / saved are what properties C04 and C02 talk about. *)
(*                                                                          *)
(* Functional style: the whole buffer is one record, every operation of the *)
(* lbuf_* interface is Step(s, op).  Model checking (MC_Lbuf), the graph    *)
(* dump that drives the C walker (M3) and the editor-level modules all use  *)
(* the same operators.                                                      *)
(***************************************************************************)
EXTENDS Naturals, Sequences, FiniteSets, TLC, SequencesExt

Min2(a, b) == IF a < b THEN a ELSE b

(* lbuf_replace: lines pos+1 .. pos+ndel (1-based) are replaced by ins *)
Splice(s, pos, ndel, ins) ==
    SubSeq(s, 1, pos) \o ins \o SubSeq(s, pos + ndel + 1, Len(s))

New == [lines  |-> <<>>,     \* the text: a sequence of lines (here: line identities)
        hist   |-> <<>>,     \* edit log: [pos, del, ins, seq]
        hu     |-> 0,        \* undo cursor: entries 1..hu are applied
        useq   |-> 1,        \* sequence number given to the next splice
        uzero  |-> 0,        \* sequence number of the saved state
        ulast  |-> 0,        \* sequence number "before hist[]"
        past   |-> <<>>,     \* ghost: text before each not-yet-undone command
        future |-> <<>>,     \* ghost: text after each undone command
        saved  |-> <<>>,     \* ghost: text at the last lbuf_saved()
        ret    |-> 0,        \* return value of the last operation
        aux    |-> 0]        \* stamp copied into new log entries (vi: the cursor offset when the command began)

SeqAt(s, i) == IF i = 0 THEN s.ulast ELSE s.hist[i].seq
Dirty(s)    == SeqAt(s, s.hu) # s.uzero              \* lbuf_seq(lb) != useq_zero
InCmd(s)    == s.hu > 0 /\ s.hist[s.hu].seq = s.useq \* this command has spliced already

(* lbuf_edit(lb, text, beg, end) with text = ins (NULL iff ~nonnull) *)
Edit(s, beg0, end0, ins, nonnull) ==
    LET n   == Len(s.lines)
        beg == Min2(beg0, n)
        end == Min2(end0, n)
    IN IF beg = end /\ ~nonnull THEN [s EXCEPT !.ret = 0]
       ELSE [s EXCEPT
              !.hist   = Append(SubSeq(s.hist, 1, s.hu),
                                [pos |-> beg, del |-> SubSeq(s.lines, beg + 1, end),
                                 ins |-> ins, seq |-> s.useq, aux |-> s.aux]),
              !.hu     = s.hu + 1,
              !.lines  = Splice(s.lines, beg, end - beg, ins),
              !.past   = IF InCmd(s) THEN s.past ELSE Append(s.past, s.lines),
              !.future = <<>>,
              !.ret    = 0]

(* lbuf_undo: all entries carrying the sequence number of the top entry *)
RECURSIVE UndoTo(_, _, _, _)
UndoTo(lines, hist, hu, seq) ==
    IF hu > 0 /\ hist[hu].seq = seq
    THEN UndoTo(Splice(lines, hist[hu].pos, Len(hist[hu].ins), hist[hu].del), hist, hu - 1, seq)
    ELSE <<lines, hu>>

Undo(s) ==
    IF s.hu = 0 THEN [s EXCEPT !.ret = 1]
    ELSE LET r == UndoTo(s.lines, s.hist, s.hu, s.hist[s.hu].seq)
         IN [s EXCEPT !.lines = r[1], !.hu = r[2], !.ret = 0,
                      !.past = Front(s.past), !.future = Append(s.future, s.lines)]

RECURSIVE RedoTo(_, _, _, _)
RedoTo(lines, hist, hu, seq) ==
    IF hu < Len(hist) /\ hist[hu + 1].seq = seq
    THEN RedoTo(Splice(lines, hist[hu + 1].pos, Len(hist[hu + 1].del), hist[hu + 1].ins),
                hist, hu + 1, seq)
    ELSE <<lines, hu>>

Redo(s) ==
    IF s.hu = Len(s.hist) THEN [s EXCEPT !.ret = 1]
    ELSE LET r == RedoTo(s.lines, s.hist, s.hu, s.hist[s.hu + 1].seq)
         IN [s EXCEPT !.lines = r[1], !.hu = r[2], !.ret = 0,
                      !.future = Front(s.future), !.past = Append(s.past, s.lines)]

(* lbuf_modified(): the command boundary; returns the dirty answer *)
Bump(s) == [s EXCEPT !.useq = s.useq + 1, !.ret = IF Dirty(s) THEN 1 ELSE 0]

(* lbuf_saved(lb, clear) on the current buffer (it bumps the current buffer's counter) *)
Saved(s, clear) ==
    LET c == IF clear THEN [s EXCEPT !.hist = <<>>, !.hu = 0, !.ulast = s.useq,
                                     !.past = <<>>, !.future = <<>>]
             ELSE s
    IN [c EXCEPT !.uzero = SeqAt(c, c.hu), !.useq = c.useq + 1, !.saved = c.lines, !.ret = 0]

Step(s, op) ==
    CASE op.op = "edit"  -> Edit(s, op.beg, op.end, op.ins, op.nonnull)
      [] op.op = "undo"  -> Undo(s)
      [] op.op = "redo"  -> Redo(s)
      [] op.op = "bump"  -> Bump(s)
      [] op.op = "saved" -> Saved(s, op.clear)

(***************************************************************************)
(* Properties (C04, C02).                                                   *)
(***************************************************************************)
(* number of maximal runs of equal sequence numbers in hist[a..b] *)
RECURSIVE Groups(_, _, _)
Groups(hist, a, b) ==
    IF a > b THEN 0
    ELSE IF a = b \/ hist[a].seq # hist[a + 1].seq THEN 1 + Groups(hist, a + 1, b)
    ELSE Groups(hist, a + 1, b)

AtBoundary(s)   == s.hu = 0 \/ s.hu = Len(s.hist) \/ s.hist[s.hu].seq # s.hist[s.hu + 1].seq
GhostMatches(s) == /\ Len(s.past) = Groups(s.hist, 1, s.hu)
                   /\ Len(s.future) = Groups(s.hist, s.hu + 1, Len(s.hist))
DirtySound(s)   == ~Dirty(s) => s.lines = s.saved
SeqsMonotone(s) == /\ \A i \in 1..Len(s.hist) : s.hist[i].seq <= s.useq
                   /\ \A i \in 1..Len(s.hist) - 1 : s.hist[i].seq <= s.hist[i + 1].seq

(* action-level: the operational undo/redo lands on the ghost text *)
UndoExact(s, t) == (t.hu < s.hu /\ t.hist = s.hist) => (s.past # <<>> /\ t.lines = Last(s.past))
RedoExact(s, t) == (t.hu > s.hu /\ t.hist = s.hist) => (s.future # <<>> /\ t.lines = Last(s.future))
EndsFail(s, t)  == (t.ret = 1 /\ t.useq = s.useq) => (t.lines = s.lines /\ t.hu = s.hu /\ t.hist = s.hist)
=============================================================================
