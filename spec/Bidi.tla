-------------------------------- MODULE Bidi ---------------------------------
(***************************************************************************)
(* The reordering of dir.c for every line, including the configured         *)
(* direction marks (conf.h dirmarks[]: \*[...], $...$, \cmd{...}, \word      *)
(* and the two run patterns): the operational definition, dir_fix() over    *)
(* the pattern sets of DirTables with the matcher of Regex.tla.             *)
(* ord[i] is the visual index of the i-th character; reversing a range of   *)
(* characters exchanges their visual indices.  On lines without mark        *)
(* characters it must agree with the declarative Layout!Reorder (runs of    *)
(* the opposite direction reversed in place): ReorderAgrees.                *)
(***************************************************************************)
EXTENDS Layout, DirTables
BRx == INSTANCE Regex

(* the marks usable in a left-to-right (ctx > 0) or right-to-left context, in table order *)
UsableIdx(ctx) == SelectSeq([i \in 1..Len(DirMarkTab) |-> i],
                            LAMBDA i : IF ctx < 0 THEN DirMarkTab[i].ctx <= 0 ELSE DirMarkTab[i].ctx >= 0)
(* dir_match() on the characters [beg, end) of t (0-based, end exclusive); t is the line without its newline, which
   follows it: the end of the range is never the end of the string, so RE_NOTEOL is always set *)
DirMatch(t, beg, end, ctx) ==
    LET idx == UsableIdx(ctx)
        ps  == [k \in 1..Len(idx) |-> DirMarkTab[idx[k]].pat]
        cx  == [s |-> SubSeq(t, beg + 1, end), ic |-> FALSE, nb |-> beg > 0, ne |-> TRUE, nl |-> TRUE]
        r   == BRx!SetFind(ps, 2, cx)
    IN IF r = <<>> THEN <<>>
       ELSE LET m  == DirMarkTab[idx[r[1] + 1]]
                w  == r[2][1]
                g  == IF m.grp > 0 THEN r[2][m.grp + 1] ELSE w
                gg == IF g[1] >= 0 THEN g ELSE w
            IN <<[rb |-> beg + w[1], re |-> beg + w[2], cb |-> beg + gg[1], ce |-> beg + gg[2], dir |-> m.dir, rec |-> m.grp > 0]>>
(* dir_reverse(): the visual indices of the characters b .. e-1 (0-based) in opposite order *)
RevOrd(ord, b, e) == [i \in 1..Len(ord) |-> IF i > b /\ i <= e THEN ord[b + e + 1 - i] ELSE ord[i]]
RECURSIVE DirFix(_, _, _, _, _)
DirFix(t, ord, dir, beg, end) ==
    IF beg >= end THEN ord
    ELSE LET mm == DirMatch(t, beg, end, dir) IN
         IF mm = <<>> THEN ord
         ELSE LET m  == mm[1]
                  o1 == IF dir < 0 THEN RevOrd(ord, m.rb, m.re) ELSE ord
                  o2 == IF m.dir < 0 THEN RevOrd(o1, m.cb, m.ce) ELSE o1
                  cb == IF m.cb = m.rb THEN m.cb + 1 ELSE m.cb
                  o3 == IF m.rec THEN DirFix(t, o2, m.dir, cb, m.ce) ELSE o2
              IN IF m.re <= beg THEN o3 ELSE DirFix(t, o3, dir, m.re, end)
(* dir_reorder() *)
ReorderOp(line, ctx) ==
    LET n == Len(line)
        t == IF n > 0 /\ line[n] = NL THEN SubSeq(line, 1, n - 1) ELSE line
    IN DirFix(t, [i \in 1..n |-> i - 1], ctx, 0, Len(t))
ReorderAgrees(line, ctx) == HasMarkChar(line) \/ ReorderOp(line, ctx) = Reorder(line, ctx)
=============================================================================
