#!/bin/sh
# Reproduces the C08 findings of findings.md against the plain `make` build.
# usage: sh repro.sh   (run from anywhere; uses /tmp/wt/c08a/vi)
VI=/tmp/wt/c08a/vi
export EXINIT=""

# run <file content (printf fmt)> <keys (printf fmt)>; prints the resulting file on one line:
# space shown as _, tab as \t, newline as \n
run() {
	d=$(mktemp -d) || exit 1
	(
		cd "$d" || exit 1
		printf "$1" >in
		printf "$2"':w! out\n:q!\n' | timeout 20 "$VI" -v in >/dev/null 2>&1
		rc=$?
		if [ -f out ]; then
			sed -e 's/ /_/g' -e 's/	/\\t/g' -e 's/$/\\n/' out | tr -d '\n'
		else
			printf '(no file written, editor exit status %s)' "$rc"
		fi
	)
	rm -rf "$d"
	echo
}

echo "== F1: ; and , under an operator are exclusive although f F t T are inclusive"
echo "file 'abcxdefxghi', keys: fx d;   (cursor on 1st x, target 2nd x)"
printf 'OBSERVED d;  :'; run 'abcxdefxghi\n' 'fxd;'
printf 'OBSERVED dfx :'; run 'abcxdefxghi\n' 'fxdfx'
printf '%s\n' 'EXPECTED both: abcghi\n   (f is inclusive, ; repeats f)'
echo "keys: fx y; \$p   (yank with ; then put at end of line)"
printf 'OBSERVED y;  :'; run 'abcxdefxghi\n' 'fxy;$p'
printf 'OBSERVED yfx :'; run 'abcxdefxghi\n' 'fxyfx$p'
printf '%s\n' 'EXPECTED both: abcxdefxghixdefx\n'
echo "keys: fx ; d,  versus  fx ; dFx   (backward)"
printf 'OBSERVED d,  :'; run 'abcxdefxghi\n' 'fx;d,'
printf 'OBSERVED dFx :'; run 'abcxdefxghi\n' 'fx;dFx'
printf '%s\n' 'EXPECTED both the same region (the editor itself makes F inclusive: abcghi\n)'
echo

echo '== F2: text yanked/deleted with the register name " is not what ""p inserts'
echo "file 'foo bar', keys: w yw 0 \"\"yw \$ \"\"p   (yank bar unnamed, then yank 'foo ' into \"\", put \"\")"
printf 'OBSERVED:'; run 'foo bar\n' 'wyw0""yw$""p'
printf '%s\n' 'EXPECTED: foo_barfoo_\n   (the text yanked into register ")'
echo "file 'foo bar', keys: w \"\"dw 0 \"\"P   (delete bar into \"\", put it back at column 0)"
printf 'OBSERVED:'; run 'foo bar\n' 'w""dw0""P'
printf '%s\n' 'EXPECTED: barfoo_\n'
echo "file 'foo bar / baz', keys: \"\"dd p  and  \"\"dd \"\"p  (line delete into \"\", then put)"
printf 'OBSERVED ""ddp  :'; run 'foo bar\nbaz\n' '""ddp'
printf 'OBSERVED ""dd""p:'; run 'foo bar\nbaz\n' '""dd""p'
printf '%s\n' 'EXPECTED both: baz\nfoo_bar\n'
echo

echo '== F3: a / A followed by ESC (nothing typed) on a blank-only line deletes its blanks'
echo "file 'x / <3 spaces> / y', keys: j A ESC"
printf 'OBSERVED (ai)  :'; run 'x\n   \ny\n' 'jA\033'
printf 'OBSERVED (noai):'; run 'x\n   \ny\n' ':set noai\njA\033'
printf 'OBSERVED $a ESC:'; run 'x\n \t \ny\n' ':set noai\nj$a\033'
printf '%s\n' 'EXPECTED: text unchanged (x\n___\ny\n resp. x\n_\t_\ny\n): an insert of no text inserts nothing'
printf 'CONTROL  I ESC :'; run 'x\n   \ny\n' 'jI\033'
echo

echo '== extra E1: a filter that stops reading early kills the editor with SIGPIPE (! operator)'
d=$(mktemp -d); (
	cd "$d" || exit 1
	seq 1 40000 >in
	# deterministic variant: the filter freezes vi while it drains part of the pipe and closes it
	printf '!Gkill -STOP $PPID; head -c 30000 >/dev/null; exec 0<&-; kill -CONT $PPID; echo done\n:w! out\n:q!\n' |
		timeout 20 "$VI" -v in >/dev/null 2>&1
	echo "OBSERVED: editor exit status $? (141 = killed by SIGPIPE), out written: $([ -f out ] && echo yes || echo no)"
	echo "EXPECTED: status 0, buffer replaced by the filter output 'done', out written"
	k=0; n=20
	for i in $(seq 1 $n); do
		rm -f out
		printf '!Ghead -1\n:w! out\n:q!\n' | timeout 20 "$VI" -v in >/dev/null 2>&1 || k=$((k + 1))
	done
	echo "OBSERVED (natural race, '!Ghead -1' on 40000 lines): editor died in $k of $n runs (timing dependent)"
); rm -rf "$d"
echo

echo '== extra E2: putting a deleted line into the (now empty) buffer inserts an additional empty line'
printf 'OBSERVED a / ddp:'; run 'a\n' 'ddp'
printf '%s\n' 'EXPECTED: a\n'
echo

echo '== extra E3: dF / dT also take the character under the cursor'
printf 'OBSERVED $dFx on abcxdefxghi:'; run 'abcxdefxghi\n' '$dFx'
printf '%s\n' 'EXPECTED (F exclusive, as in POSIX vi): abcxdefi\n'

pgrep -f "^$VI" >/dev/null && echo "WARNING: editor process left running" || true
