#!/bin/sh
# C03 audit: reproduces the findings in findings.md.  Prints OBSERVED/EXPECTED lines.
# Usage: sh /tmp/wt/c03a/repro.sh      (needs cc, python3 not required)
HERE=/tmp/wt/c03a
VI=$HERE/vi
SO=$HERE/faultinj.so
EXINIT=""; export EXINIT
[ -x $VI ] || (cd $HERE && make >/dev/null 2>&1)
[ -f $SO ] || cc -shared -fPIC -O1 -o $SO $HERE/faultinj.c -ldl || exit 1
D=$(mktemp -d /tmp/nv_c03a.XXXXXX) || exit 1
cd $D || exit 1

big() {	# 200 lines, 11600 bytes: three write batches
	i=0
	while [ $i -lt 200 ]; do
		printf 'line %05d xxxxxxxxxxxxxxxxxxxxxxxxxxxxxxxxxxxxxxxxxxxxxx\n' $i
		i=$((i + 1))
	done
}

echo "=== F1: after a failed write, the retry without '!' is refused (\"file changed\")"
big > big
# F1a: new file; RLIMIT_FSIZE=1024 bytes: first batch is cut short, its retry gets EFBIG
rm -f new
out=$( (trap '' XFSZ; ulimit -f 2; printf ':r big\n:w\n:3,$d\n:w\n:q!\n' | timeout 20 $VI -s -e new 2>&1) )
echo "OBSERVED F1a: $out"
echo "OBSERVED F1a: new has $(wc -c < new) bytes, $(wc -l < new) complete lines (partial garbage of the failed write)"
echo "EXPECTED F1a: first :w -> 'write failed'; second :w (2 lines, fits the limit) -> '\"new\"  [=2]  [w]' and new holds exactly 2 lines"
# F1b: existing file, failed write happens in a later second than the read
printf 'a\nb\n' > old
out=$( (trap '' XFSZ; ulimit -f 2; (printf ':r big\n'; sleep 2; printf ':w\n:3,$d\n:w\n:q!\n') | timeout 20 $VI -s -e old 2>&1) )
echo "OBSERVED F1b: $out"
echo "EXPECTED F1b: ... write failed, then '\"old\"  [=2]  [w]'"
# F1c: same with an injected EIO on close(2) (all data already on disk), healthy file system
printf 'a\nb\n' > old3
out=$( (printf ':s/a/A/\n'; sleep 2; printf ':w\n:w\n:q!\n') | FI_PATH=old3 FI_CALL=close FI_AT=1 FI_KIND=5 LD_PRELOAD=$SO timeout 20 $VI -s -e old3 2>&1)
echo "OBSERVED F1c: $out"
echo "EXPECTED F1c: write failed (close -> EIO), then '\"old3\"  [=2]  [w]'"

echo
echo "=== F2: a foreign existing file with a pre-1970 mtime is replaced by :w without '!'"
printf 'own\n' > own; printf 'precious\n' > other; touch -d '1960-01-01 00:00:00' other
out=$(printf ':w other\n:q!\n' | timeout 20 $VI -s -e own 2>&1)
echo "OBSERVED F2a: $out ; other now holds: $(cat other)"
echo "EXPECTED F2a: 'write failed: file exists' ; other still holds: precious"
printf 'precious\n' > other3; touch -d @-1 other3
out=$(printf ':w other3\n:q!\n' | timeout 20 $VI -s -e own 2>&1)
echo "OBSERVED F2b (mtime == -1): $out ; other3 now holds: $(cat other3)"
echo "EXPECTED F2b: refused ; other3 still holds: precious"
# variant: path did not exist when editing began, was created behind the editor's back
rm -f late
out=$(printf ':!printf "EXT\\\\n" > late; touch -d 1960-01-01 late\n:a\nmine\n.\n:w\n:q!\n' | timeout 20 $VI -s -e late 2>&1 | tr -d '\033')
echo "OBSERVED F2c: $out ; late now holds: $(cat late)"
echo "EXPECTED F2c: 'write failed: file changed' ; late still holds: EXT"

echo
echo "=== F3: ftruncate(2) failure is ignored: :w reports success but the file keeps the old tail"
printf 'OLD1\nOLD2\nOLD3 long long long long long long long\n' > tgt
out=$(printf ':%%d\n:a\nnew\n.\n:w\n:q\n:ec STILL-RUNNING\n:q!\n' | FI_PATH=tgt FI_CALL=ftruncate FI_AT=1 FI_KIND=5 LD_PRELOAD=$SO timeout 20 $VI -s -e tgt 2>&1)
echo "OBSERVED F3: $out ; tgt holds: $(tr '\n' '|' < tgt)"
echo "EXPECTED F3: either 'write failed' + buffer still modified (':q' refused, STILL-RUNNING printed), or tgt holds exactly: new|"

echo
echo "=== N1 (note): failed write + undo => buffer counts as clean, plain :q leaves a half-written file"
i=0; while [ $i -lt 150 ]; do printf 'line %05d\n' $i; i=$((i + 1)); done > f; cp f f.orig
out=$( (trap '' XFSZ; ulimit -f 2; printf ':%%s/line/LINE-LONGER/\n:w\n:u\n:q\n:ec STILL-RUNNING\n:q!\n' | timeout 20 $VI -s -e f 2>&1) )
echo "OBSERVED N1: $out ; f identical to original: $(cmp -s f f.orig && echo yes || echo no) ($(wc -c < f) bytes, original $(wc -c < f.orig))"
echo "EXPECTED N1: ':q' refused with 'buffer modified' (STILL-RUNNING printed), because f no longer holds the buffer text"

echo
echo "=== N2 (note): external change within the same second as the editor's read is overwritten"
printf 'one\n' > b1
out=$(printf ':!printf "EXTERNAL EDIT\\\\n" > b1\n:s/one/mine/\n:w\n:q!\n' | timeout 20 $VI -s -e b1 2>&1 | tr -d '\033')
echo "OBSERVED N2: $out ; b1 holds: $(cat b1)"
echo "EXPECTED N2: 'write failed: file changed' ; b1 holds: EXTERNAL EDIT   (st_mtim.tv_nsec is newer; only st_mtime seconds are compared)"

cd /; rm -rf $D
