/*
 * LD_PRELOAD fault injector for the C03 audit (test harness only; not part of the editor).
 *   FI_PATH  : basename substring of the file whose fd is tracked (opened for writing)
 *   FI_CALL  : open | write | close | ftruncate
 *   FI_AT    : 1-based index of the call (on the tracked fd / path) to fault
 *   FI_KIND  : errno number (>0) to fail with, or "s<N>" short count of N bytes (write only)
 *   FI_ONCE  : file path; if it exists the fault is disarmed (created when the fault fires),
 *              so that a later retry in the same process can succeed
 */
#define _GNU_SOURCE
#include <dlfcn.h>
#include <errno.h>
#include <fcntl.h>
#include <stdarg.h>
#include <stdlib.h>
#include <string.h>
#include <unistd.h>
#include <sys/types.h>

static int tracked = -1;
static int cnt_open, cnt_write, cnt_close, cnt_trunc;
static int fired;

static int armed(char *call, int n)
{
	char *c = getenv("FI_CALL"), *at = getenv("FI_AT");
	if (fired || !c || !at || strcmp(c, call) || atoi(at) != n)
		return 0;
	return 1;
}

static void fire(void)
{
	fired = 1;
}

int open(const char *path, int flags, ...)
{
	static int (*real)(const char *, int, ...);
	char *p = getenv("FI_PATH");
	mode_t mode = 0;
	int fd;
	va_list ap;
	va_start(ap, flags);
	if (flags & O_CREAT)
		mode = va_arg(ap, int);
	va_end(ap);
	if (!real)
		real = dlsym(RTLD_NEXT, "open");
	if (p && strstr(path, p) && (flags & O_ACCMODE) != O_RDONLY) {
		if (armed("open", ++cnt_open)) {
			fire();
			errno = atoi(getenv("FI_KIND"));
			return -1;
		}
		fd = real(path, flags, mode);
		tracked = fd;
		return fd;
	}
	return real(path, flags, mode);
}

ssize_t write(int fd, const void *buf, size_t n)
{
	static ssize_t (*real)(int, const void *, size_t);
	if (!real)
		real = dlsym(RTLD_NEXT, "write");
	if (fd >= 0 && fd == tracked && armed("write", ++cnt_write)) {
		char *k = getenv("FI_KIND");
		fire();
		if (k[0] == 's') {
			size_t m = atoi(k + 1);
			return real(fd, buf, m < n ? m : n);
		}
		errno = atoi(k);
		return -1;
	}
	return real(fd, buf, n);
}

int ftruncate(int fd, off_t len)
{
	static int (*real)(int, off_t);
	if (!real)
		real = dlsym(RTLD_NEXT, "ftruncate");
	if (fd >= 0 && fd == tracked && armed("ftruncate", ++cnt_trunc)) {
		fire();
		errno = atoi(getenv("FI_KIND"));
		return -1;
	}
	return real(fd, len);
}

int close(int fd)
{
	static int (*real)(int);
	if (!real)
		real = dlsym(RTLD_NEXT, "close");
	if (fd >= 0 && fd == tracked) {
		tracked = -1;
		if (armed("close", ++cnt_close)) {
			fire();
			real(fd);
			errno = atoi(getenv("FI_KIND"));
			return -1;
		}
	}
	return real(fd);
}
