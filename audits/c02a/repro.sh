#!/bin/sh
# C02 audit: reproduces the findings of findings.md; prints OBSERVED/EXPECTED lines.
# usage: sh repro.sh   (from anywhere; uses /tmp/wt/c02a/vi)
export EXINIT=""
VI=${VI:-/tmp/wt/c02a/vi}

newdir() { D=$(mktemp -d /tmp/.nv_c02a_XXXXXX) && cd "$D"; }
cleanup() { cd / && rm -rf "$D"; }
flat() { tr '\n' '~'; }

echo "== F1a: :e! whose read fails (file does not exist) keeps the modified text and marks it clean"
newdir
out=$(printf 'a\nhello\n.\n:b\n:e!\n:b\n:%%p\n:q\n:w out\n:q!\n' | timeout 20 $VI -s -e newf 2>&1 | flat)
echo "OBSERVED: output=[$out] out-file-exists=$([ -e out ] && echo yes || echo no) newf-exists=$([ -e newf ] && echo yes || echo no)"
echo "EXPECTED: second :b line still shows '*' (or the buffer was emptied); :q refused, so ':w out' runs and out exists with 'hello'"
cleanup

echo "== F1b: same, file removed after it was read (text CHANGED is lost by plain :q)"
newdir
printf 'a\nb\n' > f1
out=$(printf ':!rm f1\n:s/a/CHANGED/\n:e!\n:b\n:%%p\n:q\n:w out\n:q!\n' | timeout 20 $VI -s -e f1 2>&1 | flat)
echo "OBSERVED: output=[$out] out-file-exists=$([ -e out ] && echo yes || echo no)"
echo "EXPECTED: ':b' shows 'f1 *' while the buffer holds CHANGED; :q refused; out exists"
cleanup

echo "== F1c: same in visual mode, unnamed/new file"
newdir
printf 'ihello\033:e!\n:q\n:w out\n:q!\n' | timeout 20 $VI -v newf >/dev/null 2>&1
echo "OBSERVED: out-file-exists=$([ -e out ] && echo yes || echo no) (no = the first :q left the editor, 'hello' discarded)"
echo "EXPECTED: out-file-exists=yes (the first :q is refused)"
cleanup

echo "== F2: commands after an accepted :q on the same line still run; their edits are discarded at exit"
newdir
printf 'a\nb\nc\n' > f1
out=$(printf ':q|s/a/A/|b|w witness\n:w out\n:q!\n' | timeout 20 $VI -s -e f1 2>&1 | flat)
echo "OBSERVED: output=[$out] witness=[$(flat < witness 2>/dev/null)] f1=[$(flat < f1)] out-file-exists=$([ -e out ] && echo yes || echo no)"
echo "EXPECTED: either nothing after :q runs (no witness file), or the editor does not exit with buffer text A~b~c~ != file a~b~c~ (listing shows 'f1 *' at exit time)"
cleanup

echo "== F3: undo returns the text to the saved state but the buffer stays dirty and :q is refused"
newdir
printf 'a\nb\nc\n' > f1
out=$(printf ':s/a/A/\n:w\n:e!\n:b\n:u\n:b\n:%%p\n:q\n:w out\n:q!\n' | timeout 20 $VI -s -e f1 2>&1 | flat)
echo "OBSERVED: output=[$out] f1=[$(flat < f1)] out=[$(flat < out 2>/dev/null)]"
echo "EXPECTED: after :u the text A~b~c~ equals the file, so ':b' shows no '*' and :q leaves (no out file)"
cleanup

echo "== note: two buffers on one file (path spelled differently) -- stale buffer reported clean"
newdir
printf 'x\ny\n' > f2
out=$(printf ':e ./f2\n:s/x/X/\n:w\n:b\n:e f2\n:%%p\n:q\n:w out\n:q!\n' | timeout 20 $VI -s -e f2 2>&1 | flat)
echo "OBSERVED: output=[$out] f2=[$(flat < f2)] out-file-exists=$([ -e out ] && echo yes || echo no)"
echo "EXPECTED (literal reading only): buffer 'f2' (x~y~) differs from its file (X~y~) yet is listed clean"
cleanup

pgrep -f "$VI" >/dev/null && echo "WARNING: editor still running" || echo "no editor process left"
