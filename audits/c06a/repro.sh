#!/bin/sh
# Reproduces the C06 findings of findings.md; prints OBSERVED/EXPECTED pairs.
VI=/tmp/wt/c06a/vi
export EXINIT=""

# run <initial file (printf fmt)> <ex script (printf fmt)>; leaves $D/out and $D/stdout
run() {
	D=$(mktemp -d)
	( cd "$D" && printf "$1" > f && printf 'hi\n' > g &&
	  printf "$2" | timeout 20 $VI -s -e f > stdout 2>&1 )
}
show() {	# show <label> <file>
	printf '%s: ' "$1"
	if [ -f "$2" ]; then tr '\n' '|' < "$2"; else printf '(no file)'; fi
	echo
}
fin() { rm -rf "$D"; }

echo "== F1a: append at an unset mark (file a,b,c; script: 2p 'xa X . w out)"
run 'a\nb\nc\n' "2p\n'xa\nX\n.\nw out\nq!\n"
show OBSERVED "$D/out"; echo "EXPECTED: a|b|c|   (command rejected, buffer unchanged)"; fin

echo "== F1b: append at a pattern that matches nothing (2p /zzz/a X .)"
run 'a\nb\nc\n' "2p\n/zzz/a\nX\n.\nw out\nq!\n"
show OBSERVED "$D/out"; echo "EXPECTED: a|b|c|"; fin

echo "== F1c: delete at failing pattern plus offset (1p /zzz/+2d)"
run 'a\nb\nc\n' "1p\n/zzz/+2d\nw out\nq!\n"
show OBSERVED "$D/out"; echo "EXPECTED: a|b|c|"; fin

echo "== F1d: mark whose line was deleted (3ka 3d 'aa X .) on a,b,c,d"
run 'a\nb\nc\nd\n' "3ka\n3d\n'aa\nX\n.\nw out\nq!\n"
show OBSERVED "$D/out"; echo "EXPECTED: a|b|d|"; fin

echo "== F1e: rejected 1,/zzz/d still empties the unnamed register (2y 3p 1,/zzz/d pu)"
run 'a\nb\nc\n' "2y\n3p\n1,/zzz/d\npu\nw out\nq!\n"
show OBSERVED "$D/out"; echo "EXPECTED: a|b|c|b|   (delete rejected, pu puts the yanked b after line 3)"; fin

echo "== F2a: 0r on an empty buffer (empty file; 0r g; g holds 'hi')"
run '' "0r g\nw out\nq!\n"
show OBSERVED "$D/out"; echo "EXPECTED: hi|"; fin

echo "== F2b: 0pu on an empty buffer (0a foo . 1d 0pu)"
run '' "0a\nfoo\n.\n1d\n0pu\nw out\nq!\n"
show OBSERVED "$D/out"; echo "EXPECTED: foo|"; fin

echo "== F2c: same text commands with 0a / plain pu are accepted (control)"
run '' "0a\nfoo\n.\n1d\npu\nw out\nq!\n"
show OBSERVED "$D/out"; echo "EXPECTED: foo|"; fin

echo "== F3a: delete the last line, then insert (a,b,c; 3d i X .)"
run 'a\nb\nc\n' "3d\ni\nX\n.\nw out\nq!\n"
show OBSERVED "$D/out"; echo "EXPECTED: a|X|b|   (current line is the new last line b; i inserts before it)"; fin

echo "== F3b: delete the last line, then p and .= (printed output)"
run 'a\nb\nc\n' "3d\np\n.=\nq!\n"
printf 'OBSERVED: '; sed 's/^.*\[r\]//' "$D/stdout" | tr '\n' '|'; echo
echo "EXPECTED: b|2|"; fin

echo "== F3c: filter that shrinks the buffer leaves the current line beyond it (1..5; 5p 1,5!head -2 i X .)"
run '1\n2\n3\n4\n5\n' "5p\n1,5!head -2\ni\nX\n.\nw out\nq!\n"
show OBSERVED "$D/out"; echo "EXPECTED: 1|X|2|   (current line = last filtered line 2)"; fin

pgrep -f "$VI" >/dev/null && echo "WARNING: vi still running" || true
