#!/bin/sh
# C19 audit: reproduces the findings of findings.md with tmux.
# usage: sh repro.sh        (run from anywhere; uses /tmp/wt/c19a/vi)
#
# (findings.md could not be created by the audit harness; the findings are here.)
# Files: f30 = "line 1".."line 30"; f5 = "line 1".."line 5"; fgd = "first","foo",
# "line 3".."line 20","  use foo here","line 22".."line 30". Terminal 40x10 unless stated.
#
# F1  An ex line whose LAST command fails is never followed by a redraw.
#   input : ':2d|se xyz\n'   variants ':e +99 f5\n' and ':1,3p|se xyz\n' + Enter
#   seen  : buffer line 2 is "line 3" but row 1 still shows "line 2"; with :e +99 f5
#           the buffer is f5 (5 lines) yet all 9 rows show f30; with :1,3p|... the rows
#           read line 3..8, line 1, line 2, line 3 (scrolled by ex_print, not contiguous).
#   wants : "text rows show exactly a contiguous window of the current buffer lines ...
#           never leave a stale or missing row".
#   code  : vi.c vi() case ':' (l.1702-1703) sets mod = VC_ALL only if ex_command()==0;
#           ex_exec() returns the status of the last command only.
#   fix   : mod = VC_ALL for every executed line except the bare ":w".
#
# F2  '^W g d' splits the screen but redraws nothing.
#   input : fgd, '20jww\027gd'
#   seen  : rows 5-8 keep "line 22..25" and the old status line of the full-size window;
#           ^L draws "line 18, line 19, line 20,   use foo here" there.
#   wants : window commands never leave a stale row.
#   code  : vi.c vc_definition() l.1343-1347 returns VC_COL after vi_wmirror().
#   fix   : return newwin ? VC_ALL : VC_COL;
#
# F3  '^W x' with an odd number of terminal rows: cursor line outside the window.
#   input : f30, terminal 40x11, '\027s\027j4j\027x'
#   seen  : upper (4-row) window shows line 1-4, cursor line is line 5 (not shown),
#           terminal cursor at (0,4) = the status row; ^L gives line 2-5, cursor (0,3).
#   wants : "The window contains the cursor line and the terminal cursor is on the cell
#           of the character that commands act on."
#   code  : vi.c vi_wswap() l.210-216 flips w_cur without term_window(); vi_wfix() at
#           l.1859 runs with the old xrows, the new size arrives in the VC_ALT block.
#   fix   : end vi_wswap() with 'return vi_switch(w_cur);'.
#
# Extras (not counted): E1 '^Ws dd' leaves the other window on the same buffer stale;
# E2 '536870911^F' overflows vi_arg1*(xrows-1) (vi.c l.1585) -> xtop = -8, eight '~'
# rows above line 1; E3 shrinking the terminal: ^L runs vi_wfix() with the old win_rows
# (term_init keeps win_rows) -> cursor line off screen until a second ^L; E4 truncated
# UTF-8 '\344\270c': uc_code() reads past the sequence, reports width 2, led_render()
# prints sequentially -> cursor is not on the character x deletes.
VI=/tmp/wt/c19a/vi
S=c19a
export EXINIT=""
D=$(mktemp -d)
cd "$D" || exit 1

seq 1 30 | sed 's/^/line /' > f30
seq 1 5 | sed 's/^/line /' > f5
(echo first; echo foo; seq 3 20 | sed 's/^/line /'; echo "  use foo here"; seq 22 30 | sed 's/^/line /') > fgd

start() {	# rows cols file
	tmux kill-session -t $S 2>/dev/null
	tmux new-session -d -s $S -x "$2" -y "$1" "EXINIT= $VI $3"
	sleep 0.4
}
keys() {	# literal strings; K:name sends a named key
	for k in "$@"; do
		case "$k" in
		K:*) tmux send-keys -t $S "${k#K:}";;
		*) tmux send-keys -t $S -l "$k";;
		esac
		sleep 0.05
	done
	sleep 0.4
}
screen() { tmux capture-pane -p -t $S; }
cursor() { tmux display -p -t $S '#{cursor_x},#{cursor_y}'; }
finish() {
	tmux send-keys -t $S Escape
	tmux send-keys -t $S -l ':q!'
	tmux send-keys -t $S Enter
	sleep 0.2
	tmux kill-session -t $S 2>/dev/null
}
row() { sed -n "$(($1 + 1))p"; }	# 0-based screen row

echo "== F1a: ':2d|se xyz' (a later command of the ex line fails): no redraw"
start 10 40 f30
keys ':2d|se xyz' K:Enter
screen > a; keys ':w out' K:Enter; keys K:C-l; screen > b
echo "OBSERVED screen row 1: '$(row 1 < a)'   (buffer line 2 is '$(sed -n 2p out)')"
echo "EXPECTED screen row 1: '$(row 1 < b)'   (what ^L draws)"
finish

echo "== F1b: ':e +99 f5' (the +cmd fails after the buffer was switched): old file stays on screen"
start 10 40 f30
keys ':e +99 f5' K:Enter
screen > a; keys K:C-l; screen > b
echo "OBSERVED rows 5-8: $(sed -n 6,9p a | tr '\n' '|')   status: $(row 9 < a)"
echo "EXPECTED rows 5-8: $(sed -n 6,9p b | tr '\n' '|')   (f5 has 5 lines)"
finish

echo "== F1c: ':1,3p|se xyz' (output scrolled the text rows, then failure): no redraw"
start 10 40 f30
keys ':1,3p|se xyz' K:Enter K:Enter
screen > a; keys K:C-l; screen > b
echo "OBSERVED rows 0-8: $(sed -n 1,9p a | tr '\n' '|')"
echo "EXPECTED rows 0-8: $(sed -n 1,9p b | tr '\n' '|')"
finish

echo "== F2: '20j w w ^W g d' in a single window: lower half is not redrawn after the split"
start 10 40 fgd
keys 20j w w K:C-w g d
screen > a; keys K:C-l; screen > b
echo "OBSERVED rows 5-9: $(sed -n 6,10p a | tr '\n' '|')"
echo "EXPECTED rows 5-9: $(sed -n 6,10p b | tr '\n' '|')"
finish

echo "== F3: 11-row terminal, '^Ws ^Wj 4j ^Wx': cursor line outside the window, cursor on the status row"
start 11 40 f30
keys K:C-w s K:C-w j 4j K:C-w x
screen > a; ca=$(cursor); keys K:C-l; screen > b; cb=$(cursor)
echo "OBSERVED cursor=$ca upper window rows 0-3: $(sed -n 1,4p a | tr '\n' '|') row 4: $(row 4 < a)"
echo "EXPECTED cursor=$cb upper window rows 0-3: $(sed -n 1,4p b | tr '\n' '|') (cursor line 'line 5' visible, cursor on it)"
finish

echo "== extra E1: '^Ws dd' the other window on the same buffer keeps the deleted line"
start 10 40 f30
keys K:C-w s dd
screen > a; keys K:C-l; screen > b
echo "OBSERVED rows 5-8: $(sed -n 6,9p a | tr '\n' '|')"
echo "EXPECTED rows 5-8: $(sed -n 6,9p b | tr '\n' '|')"
finish

echo "== extra E2: '536870911^F' (count * (rows-1) overflows int): window starts before line 1"
start 10 40 f30
keys 536870911 K:C-f
screen > a
echo "OBSERVED rows 0-8: $(sed -n 1,9p a | tr '\n' '|')"
echo "EXPECTED rows 0-8: a contiguous window of buffer lines containing the cursor line, no filler above line 1"
finish

echo "== extra E3: shrink the terminal from 10 to 6 rows with the cursor on line 9"
start 10 40 f30
keys 8j
tmux resize-window -t $S -x 40 -y 6; sleep 0.6
screen > a; ca=$(cursor)
echo "OBSERVED cursor=$ca rows: $(sed -n 1,5p a | tr '\n' '|')"
echo "EXPECTED the 5 text rows contain 'line 9' and the cursor is on it (a further ^L gives: line 7..line 11, cursor 0,2)"
finish

echo "== extra E4: truncated UTF-8 sequence: cursor cell and character disagree"
printf '\344\270cdef\nxyz\n' > fbad
start 10 40 fbad
keys l
ca=$(cursor); screen > a; keys x; screen > b
echo "OBSERVED cursor=$ca on row '$(row 0 < a)'; after x the row is '$(row 0 < b)' (x removed 'c', the cursor was not on 'c')"
echo "EXPECTED the terminal cursor is on the cell of the character x deletes"
finish

tmux kill-session -t $S 2>/dev/null
pkill -f "^$VI " 2>/dev/null
rm -rf "$D"
