#!/bin/sh
# Reproduces the C14 (:s) findings of findings.md.  Run from anywhere.
VI=/tmp/wt/c14a/vi
export EXINIT=""

# run <file content (printf format)> <ex script (printf format)>; result on stdout
run() {
	d=$(mktemp -d)
	(cd "$d" && printf "$1" >in &&
		printf "$2"':w out\n:q!\n' | timeout 20 "$VI" -s -e in >/dev/null 2>&1
		cat out 2>/dev/null)
	rm -rf "$d"
}

X300=$(printf 'x%.0s' $(seq 1 300))
X45=$(printf 'x%.0s' $(seq 1 45))

echo "== F1a: :s/[[:space:]]/X/ on the line 'abc' (no white space in the line)"
echo "OBSERVED: $(run 'abc\ndef\n' ':1s/[[:space:]]/X/\n' | head -1)"
echo "EXPECTED: abc"
echo "== F1b: :s/[[:space:]]/X/g on the line 'a b'"
echo "OBSERVED: $(run 'a b\ndef\n' ':1s/[[:space:]]/X/g\n' | head -1)"
echo "EXPECTED: aXb"

printf '%s\n' "== F2: :s/[_[*](b)/<\\1>/ on the line 'x*by'"
echo "OBSERVED: $(run 'x*by\n' ':s/[_[*](b)/<\\1>/\n')"
echo "EXPECTED: x<b>y"
printf '%s\n' "== F2 control: :s/[_*[](b)/<\\1>/ on the same line (same set, other order)"
echo "OBSERVED: $(run 'x*by\n' ':s/[_*[](b)/<\\1>/\n')"
echo "EXPECTED: x<b>y"

echo "== F3a: :s/.*\$/Y/ on a line of 300 x"
echo "OBSERVED: $(run "$X300\n" ':s/.*$/Y/\n')"
echo "EXPECTED: Y"
echo "== F3b: :s/a.*b/Y/ on 'a' + 300 x + 'b'"
o=$(run "a${X300}b\n" ':s/a.*b/Y/\n')
[ "$o" = "a${X300}b" ] && o="(line unchanged, ${#o} bytes)"
echo "OBSERVED: $o"
echo "EXPECTED: Y"

echo "== Note N4: :s/x*/-/g on 'abc' (empty match at the end of the line)"
echo "OBSERVED: $(run 'abc\n' ':s/x*/-/g\n')"
echo "EXPECTED: -a-b-c-   (compare :s/\$/-/g, which does give 'abc-')"

pgrep -f "$VI" >/dev/null && echo "WARNING: an editor process is still running"
exit 0
