#!/bin/sh
# C09 audit: reproduces the findings (findings text is kept here as comments).
#
# F1  Keys pushed by '.' or '@' from inside an executed register run AFTER the rest of
#     that register.  a=".j": `x@a` does j first and then repeats x on the next line;
#     a="@bx", b="rZ": x runs before rZ.  Contradicts "executing a register with '@' as
#     typing the register's contents" (and '.' == retyping, for all following sequences).
#     Cause: term.c term_push() (l.176-180) appends at ibuf+ibuf_cnt, behind the unread
#     remainder of the running register; used by vi.c vc_repeat() l.1398 / vc_execute()
#     l.1405.  Fix: insert the pushed keys at ibuf_pos (memmove the unread tail up).
# F2  'N.' (and '@') silently truncates the pushed keys at 4095 bytes, even in the
#     middle of a command: `x4999.` on a 5000-char line leaves 904 chars; a 2100-byte
#     insert followed by `2.` yields 1 complete + 1 partial copy WITHOUT its ESC (editor
#     stays in insert mode, following keys become text; can also split a UTF-8 sequence).
#     Contradicts "'N.' as retyping it N times ... all repeat counts, for recorded
#     commands shorter than the 4 KiB recording buffer".  Cause: term.c term_push() l.178
#     n = MIN(n, sizeof(ibuf) - ibuf_cnt); consumed keys are never reclaimed either, so
#     small pushes add up during one register run.  Fix: compact ibuf before pushing and
#     grow it dynamically (or at least refuse a push that does not fit completely).
#     Related boundary: a command of exactly 4095 bytes (< 4 KiB) is not recorded
#     (vi.c l.1849 `n + 1 < sizeof(rep_cmd)`), so '.' repeats the older change.
# F3  `g` followed by NUL (ctrl-@) is taken for a change command and clobbers the repeat
#     buffer and register '.': `x g NUL .` leaves "bcdef", `x g a .` gives "cdef".
#     Contradicts "Typing '.' after a change has the same effect as retyping that
#     change's keystrokes" (for all following command sequences).  Cause: vi.c l.1848
#     (c == 'g' && strchr("uU~", k)) -- strchr(s, 0) matches the terminator.
#     Fix: (c == 'g' && k > 0 && strchr("uU~", k)).
#
# Usage: sh repro.sh   (run from anywhere; uses /tmp/wt/c09a/vi)
VI=/tmp/wt/c09a/vi
EXINIT=""; export EXINIT
D=$(mktemp -d) || exit 1
cd "$D" || exit 1

run() {	# run <file> <outfile>; keys on stdin
	timeout 20 "$VI" -v "$1" >/dev/null
}

echo "== F1: '.' / '@' inside an executed register run after the rest of the register =="
printf '.j\nabcdef\nghijkl\n' >f1
printf '"ay$jx@a:w o1a\n:q!\n' | run f1		# register a = ".j", executed with @a
printf '"ay$jx.j:w o1b\n:q!\n' | run f1		# the same keys typed
echo "OBSERVED (x then @a, a='.j'): $(tr '\n' '|' <o1a)"
echo "EXPECTED (x then .j typed)  : $(tr '\n' '|' <o1b)"
printf '@bx\nrZ\nabcdef\n' >f1n
printf '"ay$j"by$j@a:w o1c\n:q!\n' | run f1n	# a = "@bx", b = "rZ"
printf '"ay$j"by$j@bx:w o1d\n:q!\n' | run f1n
echo "OBSERVED (@a, a='@bx', b='rZ'): $(tr '\n' '|' <o1c)"
echo "EXPECTED (@bx typed)          : $(tr '\n' '|' <o1d)"

echo "== F2: 'N.' / '2.' silently truncated when the pushed keys exceed 4095 bytes =="
awk 'BEGIN { for (i = 0; i < 5000; i++) printf "a"; printf "\n" }' >f2
printf 'x4999.:w o2a\n:q!\n' | run f2
echo "OBSERVED (x then 4999. on a 5000 character line): $(($(wc -c <o2a) - 1)) characters left"
echo "EXPECTED (x typed 5000 times)                   : 0 characters left"
printf 'a\n' >f2b
B=$(awk 'BEGIN { for (i = 0; i < 2098; i++) printf "b" }')
printf 'i%s\0332.\033:w o2b\n:q!\n' "$B" | run f2b		# 2100-byte insert, then 2.
printf 'i%s\033i%s\033i%s\033\033:w o2c\n:q!\n' "$B" "$B" "$B" | run f2b
echo "OBSERVED (2100-byte insert then 2.) : $(tr -cd b <o2b | wc -c) b's; tail: $(tail -c 12 o2b | tr '\n' '|')"
echo "EXPECTED (the insert typed 3 times) : $(tr -cd b <o2c | wc -c) b's; tail: $(tail -c 12 o2c | tr '\n' '|')"

echo "== F3: 'g' followed by NUL (ctrl-@) is recorded as a change and clobbers the repeat buffer =="
printf 'abcdef\n' >f3
printf 'xg\000.:w o3a\n:q!\n' | run f3
printf 'xg\000x:w o3b\n:q!\n' | run f3
echo "OBSERVED (x g NUL .): $(cat o3a)"
echo "EXPECTED (x g NUL x): $(cat o3b)"

echo "== note: a 4095-byte command (shorter than 4 KiB) is not recorded; '.' repeats the older change =="
printf 'abcdef\n' >f4
Z=$(awk 'BEGIN { for (i = 0; i < 4093; i++) printf "Z" }')
printf 'xi%s\033.:w o4a\n:q!\n' "$Z" | run f4
printf 'xi%s\033i%s\033:w o4b\n:q!\n' "$Z" "$Z" | run f4
echo "OBSERVED (x, 4095-byte insert, .)     : $(tr -cd Z <o4a | wc -c) Z's"
echo "EXPECTED (x, 4095-byte insert, again) : $(tr -cd Z <o4b | wc -c) Z's"

cd / && rm -rf "$D"
