#!/bin/sh
# C20 audit: reproduces the findings of findings.md against ./vi (plain `make` build)
VI=${VI:-/tmp/wt/c20a/vi}
EXINIT=""; export EXINIT

mk() {	# fresh directory with files a, b, c of four lines each
	D=$(mktemp -d) && cd "$D" || exit 1
	for f in a b c; do printf '%s1\n%s2\n%s3\n%s4\n' $f $f $f $f >$f; done
}

echo "== F1: two edits of buffer a typed on two command lines are merged into one undo step"
echo "==     when a buffer switch stands between them on those lines"
mk
printf ':e b\n:e a\n:1s/a1/X/|e! b\n:e! a|2s/a2/Y/\n:u\n:w! out\n:q!\n' |
	timeout 20 $VI -s -e a >/dev/null
echo "OBSERVED (a after one :u): $(tr '\n' ' ' <out)"
echo "EXPECTED (a after one :u): X a2 a3 a4   (only the second command line undone)"
# control: same edits without leaving the buffer on the command line
printf ':e b\n:e a\n:1s/a1/X/\n:e! b\n:e! a\n:2s/a2/Y/\n:u\n:w! out\n:q!\n' |
	timeout 20 $VI -s -e a >/dev/null
echo "CONTROL  (switches on lines of their own): $(tr '\n' ' ' <out)"
# variant with :e +cmd and the writeany option
printf ':e b\n:e a\n:se wa\n:1s/a1/X/|b 2\n:e +2s/a2/Y/ a\n:u\n:w! out\n:q!\n' |
	timeout 20 $VI -s -e a >/dev/null
echo "OBSERVED (variant :se wa, :b 2, :e +cmd a): $(tr '\n' ' ' <out)"
echo "EXPECTED: X a2 a3 a4"
rm -rf "$D"

echo
echo "== F2: vi shortcuts build ex commands from unescaped paths: quick leap (q1) and ^Wj"
echo "==     reach a buffer other than the one named when the path has a space, %, # or |"
mk
printf 'ab1\nab2\n' >'a b'
printf ':n\nq1:w! out\n:!echo "[%%]" >name\n\n:q!\n' |
	timeout 20 $VI -v 'a b' c >/dev/null
echo "OBSERVED (q1 from c, menu entry '[1] a b'): current path $(cat name), text '$(tr '\n' ' ' <out)'"
echo "EXPECTED: current path [a b], text 'ab1 ab2 '"
rm -f out name
printf '\027s:e c\n\027j:w! out\n:!echo "[%%]" >name\n\n:q!\n' |
	timeout 20 $VI -v 'a b' >/dev/null
echo "OBSERVED (^Ws, :e c, ^Wj to the window that shows 'a b'): current path $(cat name), text '$(tr '\n' ' ' <out)'"
echo "EXPECTED: current path [a b], text 'ab1 ab2 '"
rm -f out name
printf 'x1\n' >'x#'
printf ':e x\\#\n:e c\nq1:!echo "[%%]" >name\n\n:q!\n' |
	timeout 20 $VI -v a >/dev/null
echo "OBSERVED (q1, menu entry '[1] x#'): current path $(cat name)"
echo "EXPECTED: current path [x#]"
rm -rf "$D"

echo
echo "== F3: a switch executed under :g leaves the global marks of the buffer left behind;"
echo "==     the next :g in that buffer changes lines outside its address range"
mk
printf ':e b\n:e a\n:g/a/e! b\n:e! a\n:1g/a/s/$/!/\n:w! out\n:q!\n' |
	timeout 20 $VI -s -e a >/dev/null
echo "OBSERVED (a after :1g/a/s/\$/!/): $(tr '\n' ' ' <out)"
echo "EXPECTED (a after :1g/a/s/\$/!/): a1! a2 a3 a4"
rm -rf "$D"
