#!/bin/sh
# C07 audit: reproduces the findings of findings.md.
# The cursor is made visible by inserting '@' before the character under it
# (i@<Esc>) after the motion(s); the buffer is then written to "out".
VI=${VI:-/tmp/wt/c07a/vi}
EXINIT=""; export EXINIT

# run FILE-CONTENT KEYS  -> prints the resulting buffer on one line ('|' = newline)
run() {
	d=$(mktemp -d) || exit 1
	(cd "$d" && printf "$1" >in &&
	 printf "$2"'i@\033:w out\n:q!\n' | timeout 20 "$VI" -v in >/dev/null 2>&1
	 tr '\n' '|' <out)
	rm -rf "$d"
}

echo "== F1: a count given to \$ is ignored (vi.c vi_motion, case '\$')"
echo "file: lines 'ab' 'cdef' 'xy'; cursor on 'a'; keys: 2\$"
echo "OBSERVED: $(run 'ab\ncdef\nxy\n' '2$')"
echo "EXPECTED: ab|cde@f|xy|   (2\$ = last character of the next line)"
echo "keys: 3\$"
echo "OBSERVED: $(run 'ab\ncdef\nxy\n' '3$')"
echo "EXPECTED: ab|cdef|x@y|"
echo

echo "== F2: w b e W B E stop inside a line that holds only blanks (mot.c lbuf_wordbeg/lbuf_wordend)"
echo "file: lines 'foo' '  ' (two blanks) 'bar'"
echo "keys: w (from 'f' of foo)"
echo "OBSERVED: $(run 'foo\n  \nbar\n' 'w')"
echo "EXPECTED: foo|  |@bar|"
echo "keys: Gb (from 'b' of bar)"
echo "OBSERVED: $(run 'foo\n  \nbar\n' 'Gb')"
echo "EXPECTED: @foo|  |bar|"
echo "keys: \$e (from the last 'o' of foo)"
echo "OBSERVED: $(run 'foo\n  \nbar\n' '$e')"
echo "EXPECTED: foo|  |ba@r|"
echo "keys: W / GB / \$E"
echo "OBSERVED: $(run 'foo\n  \nbar\n' 'W')  $(run 'foo\n  \nbar\n' 'GB')  $(run 'foo\n  \nbar\n' '$E')"
echo "EXPECTED: foo|  |@bar|  @foo|  |bar|  foo|  |ba@r|"
echo

echo "== F3: large counts overflow int; a downward motion moves up (vi.c vi_prefix / vi_motionln)"
echo "file: lines 'a' 'b' 'c' 'd'"
echo "keys: j2147483647j (from line 2, count INT_MAX)"
echo "OBSERVED: $(run 'a\nb\nc\nd\n' 'j2147483647j')"
echo "EXPECTED: a|b|c|@d|   (last line; certainly not above line 2)"
echo "keys: j2147483647+"
echo "OBSERVED: $(run 'a\nb\nc\nd\n' 'j2147483647+')"
echo "EXPECTED: a|b|c|@d|"
echo "keys: 4294967297j (2^32+1, from line 1)"
echo "OBSERVED: $(run 'a\nb\nc\nd\n' '4294967297j')"
echo "EXPECTED: a|b|c|@d|   (not one line down)"
echo "keys: 4294967298G"
echo "OBSERVED: $(run 'a\nb\nc\nd\n' '4294967298G')"
echo "EXPECTED: a|b|c|@d| or no movement (@a|b|c|d|); not line 2"
