#!/bin/sh
# Reproduces the C04 (undo/redo) findings of findings.md against ./vi built by `make`.
VI=/tmp/wt/c04a/vi
export EXINIT=""
D=$(mktemp -d) || exit 1
cd "$D" || exit 1
ex() { timeout 20 "$VI" -s -e "$@" >/dev/null 2>&1; }
vis() { timeout 20 "$VI" -v "$@" >/dev/null 2>&1; }
show() { tr '\n' '|' < "$1"; }

echo "== F1a: one :g command whose body is @r is split into one undo step per line"
printf 'a1\na2\na3\n' > f
printf 'rs r\ns/a/X/\n.\ng/a/@r\nu\nw! out\nq!\n' | ex f
echo "OBSERVED: $(show out)"
echo "EXPECTED: a1|a2|a3|   (one u undoes the whole global)"

echo "== F1b: one :g command whose body contains |w is split the same way"
printf 'a1\na2\na3\n' > f
printf 'g/a/s/a/X/|w\nu\nw! out\nq!\n' | ex f
echo "OBSERVED: $(show out)"
echo "EXPECTED: a1|a2|a3|"

echo "== F1 control: plain global is one undo step"
printf 'a1\na2\na3\n' > f
printf 'g/a/s/a/X/\nu\nw! out\nq!\n' | ex f
echo "CONTROL : $(show out)"

echo "== F2: two top-level commands are undone by a single u (edit+leave buffer, return+edit)"
printf 'a b\n' > f; printf 'zz\n' > g
printf 's/a/X/|e! g\nb #|s/b/Y/\nw! before\nu\nw! out\nq!\n' | ex f
echo "BEFORE u: $(show before)"
echo "OBSERVED: $(show out)"
echo "EXPECTED: X b|   (only the second command, s/b/Y/, is undone)"
printf 'a b\n' > f
printf 's/a/X/|e! g\ne +s/b/Y/ f\nu\nw! out2\nq!\n' | ex f
echo "OBSERVED (variant e +cmd): $(show out2)"
echo "EXPECTED: X b|"

echo "== F3: counted repeat 3. is three undo steps"
printf 'abcdefgh\n' > f
printf 'x3.:w! before\nu:w! out\n:q!\n' | vis f
echo "BEFORE u: $(show before)"
echo "OBSERVED: $(show out)"
echo "EXPECTED: bcdefgh|   (u undoes the whole counted command 3.)"

echo "== extra: an append of no text is logged as an edit"
printf 'a1\na2\n' > f
printf '1s/a/X/\na\n.\nu\nw! out\nq!\n' | ex f
echo "OBSERVED (s, empty a, u): $(show out)"
echo "EXPECTED: a1|a2|"
printf '1s/a/X/\nu\na\n.\nredo\nw! out\nq!\n' | ex f
echo "OBSERVED (s, u, empty a, redo): $(show out)"
echo "EXPECTED: X1|a2|   (nothing was edited after the undo, redo must still work)"

cd / && rm -rf "$D"
