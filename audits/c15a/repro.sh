#!/bin/sh
# C15 audit: reproduces the findings of findings.md against ./vi of this worktree.
# usage: sh repro.sh        (run from anywhere; builds nothing, expects /tmp/wt/c15a/vi)
VI=/tmp/wt/c15a/vi
export EXINIT=""

# run <file content (printf format)> <ex script (printf format)>; prints resulting file on one line
run() {
	d=$(mktemp -d)
	(
		cd "$d" || exit 1
		printf "$1" >in
		printf "$2"':w! out\n:q!\n' | timeout 20 "$VI" -s -e in >/dev/null 2>&1
		tr '\n' ' ' <out
	)
	rm -rf "$d"
}

echo "== F1: a line of the range that still exists is never visited"
echo "   file: h1 h2 a1 a2 z     cmd: g/a/s/\$/!/|-2,-1d|\$"
echo "OBSERVED: $(run 'h1\nh2\na1\na2\nz\n' 'g/a/s/$/!/|-2,-1d|$\n')"
echo "EXPECTED: a1! a2! z "
echo "   file: x a1 a2 y         cmd: g/a/s/\$/!/|-1,.d|pu"
echo "OBSERVED: $(run 'x\na1\na2\ny\n' 'g/a/s/$/!/|-1,.d|pu\n')"
echo "EXPECTED: a2! x a1! x a1! y    (in any case a2 must have been visited, i.e. carry a '!')"
echo

echo "== F2: the text typed for :c inside a global is visited as if it were an original line"
echo "   file: a1 b c d e        cmd: g/a/s/\$/!/|+1c  (text 'anew')"
echo "OBSERVED: $(run 'a1\nb\nc\nd\ne\n' 'g/a/s/$/!/|+1c\nanew\n.\nanew\n.\nanew\n.\nanew\n.\nanew\n.\n')"
echo "EXPECTED: a1! anew c d e "
echo

echo "== F4: a global with an empty range still executes on one line"
echo "   file: a1 a2 a3          cmd: 2,1g/a/d      (2,1d itself deletes nothing)"
echo "OBSERVED: $(run 'a1\na2\na3\n' '2,1g/a/d\n')"
echo "EXPECTED: a1 a2 a3 "
echo "   file: a1 a2 a3          cmd: 0g/a/s/\$/!/"
echo "OBSERVED: $(run 'a1\na2\na3\n' '0g/a/s/$/!/\n')"
echo "EXPECTED: a1 a2 a3 "
echo

echo "== F3 (additional): a failure of the LAST command of the list aborts the global"
echo "   file: a1 b c a2 d       cmd: g/a/-2d       (line a2 is never visited)"
echo "OBSERVED: $(run 'a1\nb\nc\na2\nd\n' 'g/a/-2d\n')"
echo "EXPECTED: a1 c a2 d "
echo "   same with a trailing no-op command: g/a/-2d|p  (now a2 is visited)"
echo "OBSERVED: $(run 'a1\nb\nc\na2\nd\n' 'g/a/-2d|p\n')"
echo "EXPECTED: a1 c a2 d "
