#!/bin/sh
# C13 audit (search motions / ? n N ^A) -- findings and reproduction.
# (findings.md could not be written by the audit agent's tooling; the full findings text is in this header.)
#
# F1  `?a\?b` does not search for the pattern a\?b: delimiter unescaping turns \? into the quantifier ?
#   input   : file 'a?b\nxyz\n', keys '2G?a\\?b\niX\033:w out\n:q!\n'
#             (2nd case: file 'what? no\nxyz\n', keys '2G?t\\?\niX\033:w out\n:q!\n')
#   observed: 'a?Xb' (offset 2); 2nd case 'what? nXo' (offset 7, an empty match).  The same pattern after / lands on offset 0.
#   property: "a backward search moves to the last of the successive matches that begin before the cursor ... else the last
#             one on the nearest preceding line", for all patterns and both directions: the only match of a\?b (literal a?b)
#             begins at offset 0 (2nd case: offset 3).  The meaning of the pattern depends on the direction.
#   code    : rset.c re_read() lines 139-143 drops the backslash of \<delim> (`if (*(++s) != delim) sbuf_chr(sbuf, '\\');`),
#             so for delim ? the regex gets `a?b`; called from vi.c vi_search() line 474.
#   fix idea: keep the backslash when the delimiter is a regex metacharacter:
#             `if (*(++s) != delim || strchr("?.*+|()[]{}^$", delim)) sbuf_chr(sbuf, '\\');`
#
# F2  ^A searches for a truncated word when the word under the cursor has 120 bytes or more
#   input   : line1 = a{119}bbbbbbbbbbb x, line2 = a{119} y, line3 = a{119}bbbbbbbbbbb z; keys '1G0\001iX\033:w out\n:q!\n'
#             2nd case: line1 = 漢{40} x, line2 = foo, line3 = 漢{40} z (40 CJK chars = 120 bytes; CJK text has no blanks)
#   observed: case 1 lands on line 2, a DIFFERENT word (a{119}); case 2 "not found", cursor stays (cut inside a character),
#             although /\<漢{40}\> typed by hand from the same place finds line 3.
#   property: quantified over "^A word searches" and "all buffer texts (ASCII and multi-byte)": the forward search for the
#             word under the cursor must land on its next occurrence (line 3); "cursor stays" only if nothing matches.
#   code    : vi.c vi_motion() line 600 `char cw[120], kw[128];`, vi_curword() line 591 silently truncates
#             (`len = len - 1 < end - beg ? len - 1 : end - beg;`), case TK_CTL('a') lines 743-751.
#   fix idea: vi_curword() returns 1 when end - beg > len - 1, or build the keyword in an sbuf (xkwd holds EXLEN bytes).
#
# F3  a count is not the same as repeating with n when a match starts at the end of a line
#   input   : file 'abc\ndef\n'; A: '1G02/$\niX\033:w out\n:q!\n'   B: '1G0/$\nniX\033:w out\n:q!\n'  (same with x*$)
#   observed: A ends on line 2 ('deXf'); B stays on line 1 ('abXc') however many n are typed.  /b* typed on the last
#             character of 'abb' does not move at all and reports no failure.
#   property: "n and N repeat in the same and the opposite direction, a count repeats the search": 2/pat == /pat n.
#   code    : vi.c vi_search() lines 492-497: the count loop feeds the raw offset o (= offset of the newline) into the next
#             lbuf_search(); between commands the main loop clamps it (vi.c line 1565 ren_noeol), so n restarts on the last
#             character (mot.c line 63 uc_chr(s, o0 + 1)) and finds the same end-of-line match again.
#   fix idea: clamp inside the loop (`o = ren_noeol(lbuf_get(xb, r), o);` after a successful round), or make a forward
#             search from the last character skip the end-of-line match of that line.
#
# Lower-grade observations (reproduced by hand, not counted):
#   - '/a[[:space:]]' on 'x\nba\nza b\n' lands on 'ba' offset 1: the positive class matches the line's own newline (regex.c brk_match).
#   - the keyword is cut at 511 bytes (ex.c ex_kwdset snprintf): '/' a{511}b lands on a line of 600 a without b.
#   - stray UTF-8 lead byte: file 'x\n\303abc\n': /a finds offset 1, /[a] says not found (regex.c uc_len vs uc.c uc_next).
#   - '/[/]b' ends the pattern at the / inside the bracket expression.
#   - backward enumeration stops at the newline (mot.c line 75): on 'abb' ?b* from below gives offset 1, while in 'abbc'
#     the empty match right after bb is enumerated (offset 3); the end-of-line empty match exists for / but not for ?.
#
# Probed and found consistent: ~4000 random cases against a Python model of the property (.probe/fuzz.py: 1-5 lines over
# a b _ . space tab é 漢, 45 patterns, random cursor, 1-4 commands among / ? n N with counts); all \< \> mismatches are the
# known restart deviation, all empty-match mismatches are F3 / the last observation.  By hand: ^A mid-word, on a blank,
# with count, last occurrence, multi-byte, ^A then N; /pat/x, /pat/+1 then n, empty pattern with/without previous one,
# n without pattern, bad pattern then n, ESC in prompt, \/, empty buffer, ?foo :s/x/y/ n, :/bar/ N, td=-1, 3n with two
# matches left, d/pat, tab + wide chars, ic with multi-byte, truncated UTF-8 at end of line.
#
# Reproduces the C13 findings of findings.md.  Run from anywhere; uses /tmp/wt/c13a/vi.
# The cursor is made visible by inserting an X in front of the cursor character (iX<esc>).
VI=/tmp/wt/c13a/vi
export EXINIT=""

# run <file content (printf format)> <keys (printf format)>: prints the resulting file
run() {
	d=$(mktemp -d) || exit 1
	(
		cd "$d" || exit 1
		printf "$1" >in
		printf "$2" | timeout 20 "$VI" -v in >/dev/null 2>&1
		cat out 2>/dev/null || echo "(no output file)"
	)
	rm -rf "$d"
}

echo "=== F1: backward search for a\\?b (literal a?b) -- re_read turns \\? into the quantifier ?"
echo "file: 'a?b' / 'xyz'; keys: 2G ?a\\?b<cr> iX<esc>"
echo "OBSERVED: $(run 'a?b\nxyz\n' '2G?a\\?b\niX\033:w out\n:q!\n' | head -1)"
echo "EXPECTED: Xa?b        (start of the only match of a\\?b; the same pattern typed after / finds offset 0:)"
echo "FORWARD : $(run 'xyz\na?b\n' '1G/a\\?b\niX\033:w out\n:q!\n' | sed -n 2p)"
echo "file: 'what? no' / 'xyz'; keys: 2G ?t\\?<cr> iX<esc>"
echo "OBSERVED: $(run 'what? no\nxyz\n' '2G?t\\?\niX\033:w out\n:q!\n' | head -1)"
echo "EXPECTED: whaXt? no"
echo

echo "=== F2: ^A on a word of 120 bytes or more searches for a truncated word"
A=$(awk 'BEGIN { for (i = 0; i < 119; i++) printf "a" }')
echo "file: line1 = a{119}bbbbbbbbbbb x, line2 = a{119} y, line3 = a{119}bbbbbbbbbbb z; keys: 1G0 ^A iX<esc>"
echo "OBSERVED (line: first 6 chars ... tail):"
run "${A}bbbbbbbbbbb x\n${A} y\n${A}bbbbbbbbbbb z\n" '1G0\001iX\033:w out\n:q!\n' |
	awk '{ print "   " NR ": " substr($0, 1, 6) " ... " substr($0, length($0) - 4) }'
echo "EXPECTED: X in front of line 3 (the next occurrence of the word under the cursor), line 2 holds a different word"
C=$(awk 'BEGIN { for (i = 0; i < 40; i++) printf "漢" }')
echo "file: line1 = 漢{40} x, line2 = foo, line3 = 漢{40} z; keys: 1G0 ^A iX<esc>"
echo "OBSERVED: X is on line $(run "${C} x\nfoo\n${C} z\n" '1G0\001iX\033:w out\n:q!\n' | grep -n X | cut -d: -f1) (cursor did not move, 'not found')"
echo "EXPECTED: X is on line 3; typing the same search by hand finds it: X on line $(run "${C} x\nfoo\n${C} z\n" "1G0/\\\\<${C}\\\\>\niX\033:w out\n:q!\n" | grep -n X | cut -d: -f1)"
echo

echo "=== F3: a count does not repeat the search like n when a match starts at the end of a line"
echo "file: 'abc' / 'def'; keys: 1G0 2/\$<cr> iX<esc>   versus   1G0 /\$<cr> n iX<esc>"
echo "OBSERVED 2/\$  : $(run 'abc\ndef\n' '1G02/$\niX\033:w out\n:q!\n' | tr '\n' '|')"
echo "OBSERVED /\$ n : $(run 'abc\ndef\n' '1G0/$\nniX\033:w out\n:q!\n' | tr '\n' '|')"
echo "EXPECTED: both the same ('a count repeats the search', 'n repeats in the same direction')"
echo "same with a regex:  2/x*\$ -> $(run 'abc\ndef\n' '1G02/x*$\niX\033:w out\n:q!\n' | tr '\n' '|')   /x*\$ n n n -> $(run 'abc\ndef\n' '1G0/x*$\nnnniX\033:w out\n:q!\n' | tr '\n' '|')"
echo "and /b* from the last character of 'abb' never leaves the line: $(run 'abb\nxbz\n' '1G$/b*\nnniX\033:w out\n:q!\n' | tr '\n' '|')"
